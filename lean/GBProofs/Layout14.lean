import GBModel.Assemble
import GBModel.TwoElec
import GBProofs.Layout
import GBProofs.ContractionLaws
import Mathlib.Data.List.Basic
import Mathlib.Tactic.Ring

/-!
# Layout of one-index and four-index assembled arrays

The analogues of `GBProofs/Layout.lean` (two-index arrays) for `assemble1` and `assemble4g`:

* `entry1_layout`, `entry1_layout_sph`, `entry1_layout_cart`, `assemble1_size`, `assemble1_get`;
* `wBlock4_get8`, `wBlock4_get8_cart`;
* `entry4_layout`, `assemble4g_size`, `assemble4g_get`, `assemble4_get`;
* `entry4_append`, `assemble4g_append`: the array of four different bases is the off-diagonal block
  of the array of the union basis;
* `entry4_middle_swap` (over a field): physicists' notation = exchange of the two middle indices.

Tables are total (`tab_get` holds for every index), so the statements about table entries need no
range hypotheses on the trailing index `e`; they are kept only where `locate` needs them.
-/
namespace GB
variable {K : Type}

section
variable [Transc K]

/-! ## one-index arrays -/

theorem oneBlocks_get (b : Basis K) (nextra : Nat) (blk : Nat → Tab3 K) (i : Nat) (hi : i < b.size)
    (m f e : Nat) :
    ((oneBlocks b nextra blk).get i).get3 m f e
      = if b[i].sph then sumN b[i].ncart fun a => b[i].weights.get3 m f a * (blk i).get3 m a e
        else b[i].weights.get3 m f f * (blk i).get3 m f e := by
  unfold oneBlocks
  simp only [tab_get, tab3_get]
  simp [Array.getD, hi]

/-- **Layout (one index)**: the entry in row `offset i + m·nfun + f` is entry `(m, f)` of the
normalised and transformed block of shell `i`. -/
theorem entry1_layout (b : Basis K) (nextra : Nat) (blk : Nat → Tab3 K)
    (i : Nat) (hi : i < b.size) (m f e : Nat) (hm : m < b[i].nseg) (hf : f < b[i].nfun) :
    entry1 b (oneBlocks b nextra blk) (b.offset i + m * b[i].nfun + f) e
      = ((oneBlocks b nextra blk).get i).get3 m f e := by
  unfold entry1
  simp only [locate_offset b i hi m f hm hf]

/-- unfolded form of `entry1_layout` -/
theorem entry1_layout' (b : Basis K) (nextra : Nat) (blk : Nat → Tab3 K)
    (i : Nat) (hi : i < b.size) (m f e : Nat) (hm : m < b[i].nseg) (hf : f < b[i].nfun) :
    entry1 b (oneBlocks b nextra blk) (b.offset i + m * b[i].nfun + f) e
      = if b[i].sph then sumN b[i].ncart fun a => b[i].weights.get3 m f a * (blk i).get3 m a e
        else b[i].weights.get3 m f f * (blk i).get3 m f e := by
  rw [entry1_layout b nextra blk i hi m f e hm hf, oneBlocks_get b nextra blk i hi]

/-- spherical shell: contraction of the Cartesian index with the weights -/
theorem entry1_layout_sph (b : Basis K) (nextra : Nat) (blk : Nat → Tab3 K)
    (i : Nat) (hi : i < b.size) (hs : b[i].sph = true) (m f e : Nat)
    (hm : m < b[i].nseg) (hf : f < b[i].nfun) :
    entry1 b (oneBlocks b nextra blk) (b.offset i + m * b[i].nfun + f) e
      = sumN b[i].ncart fun a => b[i].weights.get3 m f a * (blk i).get3 m a e := by
  rw [entry1_layout' b nextra blk i hi m f e hm hf, if_pos hs]

/-- Cartesian shell: the diagonal weight times the raw entry -/
theorem entry1_layout_cart (b : Basis K) (nextra : Nat) (blk : Nat → Tab3 K)
    (i : Nat) (hi : i < b.size) (hs : b[i].sph = false) (m f e : Nat)
    (hm : m < b[i].nseg) (hf : f < b[i].nfun) :
    entry1 b (oneBlocks b nextra blk) (b.offset i + m * b[i].nfun + f) e
      = b[i].weights.get3 m f f * (blk i).get3 m f e := by
  rw [entry1_layout' b nextra blk i hi m f e hm hf, if_neg (by simp [hs])]

theorem assemble1_size (b : Basis K) (nextra : Nat) (blk : Nat → Tab3 K) :
    (assemble1 b nextra blk).size = b.total * nextra := by
  simp [assemble1]

theorem flat2_index_lt {nr ne r e : Nat} (hr : r < nr) (he : e < ne) : r * ne + e < nr * ne := by
  calc r * ne + e < r * ne + ne := by omega
    _ = (r + 1) * ne := by rw [Nat.add_mul, Nat.one_mul]
    _ ≤ nr * ne := Nat.mul_le_mul_right _ hr

theorem assemble1_getElem (b : Basis K) (nextra : Nat) (blk : Nat → Tab3 K)
    (r e : Nat) (he : e < nextra) (h : r * nextra + e < (assemble1 b nextra blk).size) :
    (assemble1 b nextra blk)[r * nextra + e] = entry1 b (oneBlocks b nextra blk) r e := by
  simp only [assemble1, Array.getElem_ofFn]
  rw [mul_add_div_self he, mul_add_mod_self he]

/-- `assemble1` is row-major `[r][e]` -/
theorem assemble1_get [Inhabited K] (b : Basis K) (nextra : Nat) (blk : Nat → Tab3 K)
    (r e : Nat) (hr : r < b.total) (he : e < nextra) :
    (assemble1 b nextra blk)[r * nextra + e]! = entry1 b (oneBlocks b nextra blk) r e := by
  have h : r * nextra + e < (assemble1 b nextra blk).size := by
    rw [assemble1_size]; exact flat2_index_lt hr he
  rw [getElem!_pos (assemble1 b nextra blk) (r * nextra + e) h]
  exact assemble1_getElem b nextra blk r e he h

/-! ## the block of a quartet of shells -/

omit [Transc K] in
theorem tab8_get (n1 n2 n3 n4 n5 n6 n7 n8 : Nat)
    (F : Nat → Nat → Nat → Nat → Nat → Nat → Nat → Nat → K) (a b c d e f g h : Nat) :
    Tab.get8 (tab4 n1 n2 n3 n4 fun a b c d => tab4 n5 n6 n7 n8 fun e f g h => F a b c d e f g h)
      a b c d e f g h = F a b c d e f g h := by
  simp only [Tab.get8, tab4_get]

/-- `wBlock4` is the four nested applications of the weights, in the order `a, b, c, d`
(innermost first). -/
theorem wBlock4_get8 (sa sb sc sd : Shell K) (wa wb wc wd : Tab3 K) (raw : Tab8 K)
    (ma fa mb fb mc fc md fd : Nat) :
    (wBlock4 sa sb sc sd wa wb wc wd raw).get8 ma fa mb fb mc fc md fd
      = applyW sd wd (fun m4 a4 =>
          applyW sc wc (fun m3 a3 =>
            applyW sb wb (fun m2 a2 =>
              applyW sa wa (fun m1 a1 => raw.get8 m1 a1 m2 a2 m3 a3 m4 a4) ma fa) mb fb) mc fc)
          md fd := by
  simp only [wBlock4, Tab.get8, tab4_get]

theorem applyW_cart (s : Shell K) (w : Tab3 K) (F : Nat → Nat → K) (m g : Nat)
    (hs : s.sph = false) : applyW s w F m g = w.get3 m g g * F m g := by
  simp [applyW, hs]

theorem applyW_sph (s : Shell K) (w : Tab3 K) (F : Nat → Nat → K) (m g : Nat)
    (hs : s.sph = true) : applyW s w F m g = sumN s.ncart fun a => w.get3 m g a * F m a := by
  simp [applyW, hs]

/-- four Cartesian shells: the product of the four diagonal weights and the raw entry (in the
order of multiplication of the definition) -/
theorem wBlock4_get8_cart (sa sb sc sd : Shell K) (wa wb wc wd : Tab3 K) (raw : Tab8 K)
    (ha : sa.sph = false) (hb : sb.sph = false) (hc : sc.sph = false) (hd : sd.sph = false)
    (ma fa mb fb mc fc md fd : Nat) :
    (wBlock4 sa sb sc sd wa wb wc wd raw).get8 ma fa mb fb mc fc md fd
      = wd.get3 md fd fd * (wc.get3 mc fc fc * (wb.get3 mb fb fb * (wa.get3 ma fa fa
          * raw.get8 ma fa mb fb mc fc md fd))) := by
  rw [wBlock4_get8, applyW_cart _ _ _ _ _ hd, applyW_cart _ _ _ _ _ hc, applyW_cart _ _ _ _ _ hb,
    applyW_cart _ _ _ _ _ ha]

/-- four spherical shells: the four-fold contraction -/
theorem wBlock4_get8_sph (sa sb sc sd : Shell K) (wa wb wc wd : Tab3 K) (raw : Tab8 K)
    (ha : sa.sph = true) (hb : sb.sph = true) (hc : sc.sph = true) (hd : sd.sph = true)
    (ma fa mb fb mc fc md fd : Nat) :
    (wBlock4 sa sb sc sd wa wb wc wd raw).get8 ma fa mb fb mc fc md fd
      = sumN sd.ncart fun a4 => wd.get3 md fd a4 * sumN sc.ncart fun a3 => wc.get3 mc fc a3 *
          sumN sb.ncart fun a2 => wb.get3 mb fb a2 * sumN sa.ncart fun a1 => wa.get3 ma fa a1 *
            raw.get8 ma a1 mb a2 mc a3 md a4 := by
  rw [wBlock4_get8, applyW_sph _ _ _ _ _ hd]
  simp only [applyW_sph _ _ _ _ _ hc, applyW_sph _ _ _ _ _ hb, applyW_sph _ _ _ _ _ ha]

/-! ## four-index arrays -/

theorem weightTabs_get (b : Basis K) (i : Nat) (hi : i < b.size) :
    b.weightTabs.get i = b[i].weights := by
  unfold Basis.weightTabs
  simp only [tab_get]
  rw [Array.getElem?_eq_getElem hi]

theorem quartetBlocks_get (b1 b2 b3 b4 : Basis K) (blk : Nat → Nat → Nat → Nat → Tab8 K)
    (i j k l : Nat) (hi : i < b1.size) (hj : j < b2.size) (hk : k < b3.size) (hl : l < b4.size) :
    (quartetBlocks b1 b2 b3 b4 blk).get4 i j k l
      = wBlock4 b1[i] b2[j] b3[k] b4[l] b1[i].weights b2[j].weights b3[k].weights b4[l].weights
          (blk i j k l) := by
  unfold quartetBlocks
  simp only [tab4_get]
  rw [weightTabs_get b1 i hi, weightTabs_get b2 j hj, weightTabs_get b3 k hk, weightTabs_get b4 l hl]
  simp [Array.getD, hi, hj, hk, hl]

/-- **Layout (four indices)**: the entry at `r_k = offset_k i_k + m_k · nfun_k + f_k` is entry
`(m1, f1, m2, f2, m3, f3, m4, f4)` of the normalised and transformed block of the quartet of
shells `(i1, i2, i3, i4)`. -/
theorem entry4_layout (b1 b2 b3 b4 : Basis K) (blk : Nat → Nat → Nat → Nat → Tab8 K)
    (i1 i2 i3 i4 : Nat) (h1 : i1 < b1.size) (h2 : i2 < b2.size) (h3 : i3 < b3.size)
    (h4 : i4 < b4.size) (m1 f1 m2 f2 m3 f3 m4 f4 : Nat)
    (hm1 : m1 < b1[i1].nseg) (hf1 : f1 < b1[i1].nfun) (hm2 : m2 < b2[i2].nseg)
    (hf2 : f2 < b2[i2].nfun) (hm3 : m3 < b3[i3].nseg) (hf3 : f3 < b3[i3].nfun)
    (hm4 : m4 < b4[i4].nseg) (hf4 : f4 < b4[i4].nfun) :
    entry4 b1 b2 b3 b4 (quartetBlocks b1 b2 b3 b4 blk)
        (b1.offset i1 + m1 * b1[i1].nfun + f1) (b2.offset i2 + m2 * b2[i2].nfun + f2)
        (b3.offset i3 + m3 * b3[i3].nfun + f3) (b4.offset i4 + m4 * b4[i4].nfun + f4)
      = (wBlock4 b1[i1] b2[i2] b3[i3] b4[i4] b1[i1].weights b2[i2].weights b3[i3].weights
          b4[i4].weights (blk i1 i2 i3 i4)).get8 m1 f1 m2 f2 m3 f3 m4 f4 := by
  unfold entry4
  simp only [locate_offset b1 i1 h1 m1 f1 hm1 hf1, locate_offset b2 i2 h2 m2 f2 hm2 hf2,
    locate_offset b3 i3 h3 m3 f3 hm3 hf3, locate_offset b4 i4 h4 m4 f4 hm4 hf4]
  rw [quartetBlocks_get b1 b2 b3 b4 blk i1 i2 i3 i4 h1 h2 h3 h4]

theorem assemble4g_size (b1 b2 b3 b4 : Basis K) (blk : Nat → Nat → Nat → Nat → Tab8 K) :
    (assemble4g b1 b2 b3 b4 blk).size = b1.total * b2.total * b3.total * b4.total := by
  simp [assemble4g]

theorem assemble4_size (b : Basis K) (blk : Nat → Nat → Nat → Nat → Tab8 K) :
    (assemble4 b blk).size = b.total * b.total * b.total * b.total :=
  assemble4g_size b b b b blk

theorem flat4_index_lt {n1 n2 n3 n4 r1 r2 r3 r4 : Nat} (h1 : r1 < n1) (h2 : r2 < n2)
    (h3 : r3 < n3) (h4 : r4 < n4) :
    ((r1 * n2 + r2) * n3 + r3) * n4 + r4 < n1 * n2 * n3 * n4 :=
  flat_index_lt (flat2_index_lt h1 h2) h3 h4

theorem flat4_index_1 {n2 n3 n4 r1 r2 r3 r4 : Nat} (h2 : r2 < n2) (h3 : r3 < n3) (h4 : r4 < n4) :
    (((r1 * n2 + r2) * n3 + r3) * n4 + r4) / (n2 * n3 * n4) = r1 := by
  rw [Nat.mul_assoc, Nat.mul_comm n2 (n3 * n4), ← Nat.div_div_eq_div_mul, flat_index_row h3 h4,
    mul_add_div_self h2]

theorem flat4_index_2 {n2 n3 n4 r1 r2 r3 r4 : Nat} (h2 : r2 < n2) (h3 : r3 < n3) (h4 : r4 < n4) :
    (((r1 * n2 + r2) * n3 + r3) * n4 + r4) / (n3 * n4) % n2 = r2 := by
  rw [flat_index_row h3 h4, mul_add_mod_self h2]

theorem flat4_index_3 {n2 n3 n4 r1 r2 r3 r4 : Nat} (h3 : r3 < n3) (h4 : r4 < n4) :
    (((r1 * n2 + r2) * n3 + r3) * n4 + r4) / n4 % n3 = r3 :=
  flat_index_col h3 h4

theorem flat4_index_4 {n2 n3 n4 r1 r2 r3 r4 : Nat} (h4 : r4 < n4) :
    (((r1 * n2 + r2) * n3 + r3) * n4 + r4) % n4 = r4 := mul_add_mod_self h4

theorem assemble4g_getElem (b1 b2 b3 b4 : Basis K) (blk : Nat → Nat → Nat → Nat → Tab8 K)
    (r1 r2 r3 r4 : Nat) (h2 : r2 < b2.total) (h3 : r3 < b3.total) (h4 : r4 < b4.total)
    (h : ((r1 * b2.total + r2) * b3.total + r3) * b4.total + r4 < (assemble4g b1 b2 b3 b4 blk).size) :
    (assemble4g b1 b2 b3 b4 blk)[((r1 * b2.total + r2) * b3.total + r3) * b4.total + r4]
      = entry4 b1 b2 b3 b4 (quartetBlocks b1 b2 b3 b4 blk) r1 r2 r3 r4 := by
  simp only [assemble4g, Array.getElem_ofFn]
  rw [flat4_index_1 h2 h3 h4, flat4_index_2 h2 h3 h4, flat4_index_3 h3 h4, flat4_index_4 h4]

/-- `assemble4g` is row-major `[r1][r2][r3][r4]` (chemists' order) -/
theorem assemble4g_get [Inhabited K] (b1 b2 b3 b4 : Basis K)
    (blk : Nat → Nat → Nat → Nat → Tab8 K) (r1 r2 r3 r4 : Nat)
    (h1 : r1 < b1.total) (h2 : r2 < b2.total) (h3 : r3 < b3.total) (h4 : r4 < b4.total) :
    (assemble4g b1 b2 b3 b4 blk)[((r1 * b2.total + r2) * b3.total + r3) * b4.total + r4]!
      = entry4 b1 b2 b3 b4 (quartetBlocks b1 b2 b3 b4 blk) r1 r2 r3 r4 := by
  have h : ((r1 * b2.total + r2) * b3.total + r3) * b4.total + r4
      < (assemble4g b1 b2 b3 b4 blk).size := by
    rw [assemble4g_size]; exact flat4_index_lt h1 h2 h3 h4
  rw [getElem!_pos (assemble4g b1 b2 b3 b4 blk) _ h]
  exact assemble4g_getElem b1 b2 b3 b4 blk r1 r2 r3 r4 h2 h3 h4 h

theorem assemble4_get [Inhabited K] (b : Basis K) (blk : Nat → Nat → Nat → Nat → Tab8 K)
    (r1 r2 r3 r4 : Nat)
    (h1 : r1 < b.total) (h2 : r2 < b.total) (h3 : r3 < b.total) (h4 : r4 < b.total) :
    (assemble4 b blk)[((r1 * b.total + r2) * b.total + r3) * b.total + r4]!
      = entry4 b b b b (quartetBlocks b b b b blk) r1 r2 r3 r4 :=
  assemble4g_get b b b b blk r1 r2 r3 r4 h1 h2 h3 h4

end

/-! ## the union of four bases -/

theorem locate_union_1 (b1 b2 b3 b4 : Basis K) (r : Nat) (hr : r < b1.total) :
    Basis.locate (b1 ++ b2 ++ b3 ++ b4) r = b1.locate r := by
  rw [locate_append_left (b1 ++ b2 ++ b3) b4 r (by simp only [total_append]; omega),
    locate_append_left (b1 ++ b2) b3 r (by simp only [total_append]; omega),
    locate_append_left b1 b2 r hr]

theorem locate_union_2 (b1 b2 b3 b4 : Basis K) (r : Nat) (hr : r < b2.total) :
    Basis.locate (b1 ++ b2 ++ b3 ++ b4) (b1.total + r)
      = (b1.size + (b2.locate r).1, (b2.locate r).2.1, (b2.locate r).2.2) := by
  rw [locate_append_left (b1 ++ b2 ++ b3) b4 _ (by simp only [total_append]; omega),
    locate_append_left (b1 ++ b2) b3 _ (by simp only [total_append]; omega),
    locate_append_right b1 b2 r hr]

theorem locate_union_3 (b1 b2 b3 b4 : Basis K) (r : Nat) (hr : r < b3.total) :
    Basis.locate (b1 ++ b2 ++ b3 ++ b4) (b1.total + b2.total + r)
      = (b1.size + b2.size + (b3.locate r).1, (b3.locate r).2.1, (b3.locate r).2.2) := by
  rw [locate_append_left (b1 ++ b2 ++ b3) b4 _ (by simp only [total_append]; omega)]
  have := locate_append_right (b1 ++ b2) b3 r hr
  rw [total_append, Array.size_append] at this
  exact this

theorem locate_union_4 (b1 b2 b3 b4 : Basis K) (r : Nat) (hr : r < b4.total) :
    Basis.locate (b1 ++ b2 ++ b3 ++ b4) (b1.total + b2.total + b3.total + r)
      = (b1.size + b2.size + b3.size + (b4.locate r).1, (b4.locate r).2.1, (b4.locate r).2.2) := by
  have := locate_append_right (b1 ++ b2 ++ b3) b4 r hr
  simp only [total_append, Array.size_append] at this
  exact this

theorem getElem_union_1 (b1 b2 b3 b4 : Basis K) (i : Nat) (hi : i < b1.size)
    (h : i < (b1 ++ b2 ++ b3 ++ b4).size) : (b1 ++ b2 ++ b3 ++ b4)[i] = b1[i] := by
  rw [Array.getElem_append_left (by simp only [Array.size_append]; omega),
    Array.getElem_append_left (by simp only [Array.size_append]; omega),
    Array.getElem_append_left hi]

theorem getElem_union_2 (b1 b2 b3 b4 : Basis K) (j : Nat) (hj : j < b2.size)
    (h : b1.size + j < (b1 ++ b2 ++ b3 ++ b4).size) :
    (b1 ++ b2 ++ b3 ++ b4)[b1.size + j] = b2[j] := by
  rw [Array.getElem_append_left (by simp only [Array.size_append]; omega),
    Array.getElem_append_left (by simp only [Array.size_append]; omega),
    Array.getElem_append_right (by omega)]
  simp

theorem getElem_union_3 (b1 b2 b3 b4 : Basis K) (k : Nat) (hk : k < b3.size)
    (h : b1.size + b2.size + k < (b1 ++ b2 ++ b3 ++ b4).size) :
    (b1 ++ b2 ++ b3 ++ b4)[b1.size + b2.size + k] = b3[k] := by
  rw [Array.getElem_append_left (by simp only [Array.size_append]; omega),
    Array.getElem_append_right (by simp only [Array.size_append]; omega)]
  simp

theorem getElem_union_4 (b1 b2 b3 b4 : Basis K) (l : Nat) (hl : l < b4.size)
    (h : b1.size + b2.size + b3.size + l < (b1 ++ b2 ++ b3 ++ b4).size) :
    (b1 ++ b2 ++ b3 ++ b4)[b1.size + b2.size + b3.size + l] = b4[l] := by
  rw [Array.getElem_append_right (by simp only [Array.size_append]; omega)]
  have : b1.size + b2.size + b3.size + l - (b1 ++ b2 ++ b3).size = l := by
    simp only [Array.size_append]; omega
  simp only [this]

section
variable [Transc K]

/-- **Four different bases = off-diagonal block of the union.**  If the block function of the union
basis `b1 ++ b2 ++ b3 ++ b4`, restricted to (shell `i` of `b1`, `j` of `b2`, `k` of `b3`, `l` of
`b4`), is the block function of the quartet of bases, then the four-index array of
`(b1, b2, b3, b4)` is the corresponding sub-array of the array of the union basis. -/
theorem entry4_append (b1 b2 b3 b4 : Basis K) (blk blkU : Nat → Nat → Nat → Nat → Tab8 K)
    (hblk : ∀ i j k l, i < b1.size → j < b2.size → k < b3.size → l < b4.size →
      blkU i (b1.size + j) (b1.size + b2.size + k) (b1.size + b2.size + b3.size + l) = blk i j k l)
    (r1 r2 r3 r4 : Nat)
    (h1 : r1 < b1.total) (h2 : r2 < b2.total) (h3 : r3 < b3.total) (h4 : r4 < b4.total) :
    entry4 (b1 ++ b2 ++ b3 ++ b4) (b1 ++ b2 ++ b3 ++ b4) (b1 ++ b2 ++ b3 ++ b4)
        (b1 ++ b2 ++ b3 ++ b4)
        (quartetBlocks (b1 ++ b2 ++ b3 ++ b4) (b1 ++ b2 ++ b3 ++ b4) (b1 ++ b2 ++ b3 ++ b4)
          (b1 ++ b2 ++ b3 ++ b4) blkU)
        r1 (b1.total + r2) (b1.total + b2.total + r3) (b1.total + b2.total + b3.total + r4)
      = entry4 b1 b2 b3 b4 (quartetBlocks b1 b2 b3 b4 blk) r1 r2 r3 r4 := by
  obtain ⟨hi, -⟩ := locate_lt b1 r1 h1
  obtain ⟨hj, -⟩ := locate_lt b2 r2 h2
  obtain ⟨hk, -⟩ := locate_lt b3 r3 h3
  obtain ⟨hl, -⟩ := locate_lt b4 r4 h4
  have hsz : (b1 ++ b2 ++ b3 ++ b4).size = b1.size + b2.size + b3.size + b4.size := by
    simp only [Array.size_append]
  have hiu : (b1.locate r1).1 < (b1 ++ b2 ++ b3 ++ b4).size := by omega
  have hju : b1.size + (b2.locate r2).1 < (b1 ++ b2 ++ b3 ++ b4).size := by omega
  have hku : b1.size + b2.size + (b3.locate r3).1 < (b1 ++ b2 ++ b3 ++ b4).size := by omega
  have hlu : b1.size + b2.size + b3.size + (b4.locate r4).1 < (b1 ++ b2 ++ b3 ++ b4).size := by
    omega
  unfold entry4
  simp only [locate_union_1 b1 b2 b3 b4 r1 h1, locate_union_2 b1 b2 b3 b4 r2 h2,
    locate_union_3 b1 b2 b3 b4 r3 h3, locate_union_4 b1 b2 b3 b4 r4 h4]
  rw [quartetBlocks_get _ _ _ _ blkU _ _ _ _ hiu hju hku hlu,
    quartetBlocks_get b1 b2 b3 b4 blk _ _ _ _ hi hj hk hl,
    getElem_union_1 b1 b2 b3 b4 _ hi hiu, getElem_union_2 b1 b2 b3 b4 _ hj hju,
    getElem_union_3 b1 b2 b3 b4 _ hk hku, getElem_union_4 b1 b2 b3 b4 _ hl hlu,
    hblk _ _ _ _ hi hj hk hl]

/-- the same statement for the flat arrays -/
theorem assemble4g_append [Inhabited K] (b1 b2 b3 b4 : Basis K)
    (blk blkU : Nat → Nat → Nat → Nat → Tab8 K)
    (hblk : ∀ i j k l, i < b1.size → j < b2.size → k < b3.size → l < b4.size →
      blkU i (b1.size + j) (b1.size + b2.size + k) (b1.size + b2.size + b3.size + l) = blk i j k l)
    (r1 r2 r3 r4 : Nat)
    (h1 : r1 < b1.total) (h2 : r2 < b2.total) (h3 : r3 < b3.total) (h4 : r4 < b4.total) :
    (assemble4 (b1 ++ b2 ++ b3 ++ b4) blkU)[
        ((r1 * (b1.total + b2.total + b3.total + b4.total) + (b1.total + r2))
            * (b1.total + b2.total + b3.total + b4.total) + (b1.total + b2.total + r3))
          * (b1.total + b2.total + b3.total + b4.total) + (b1.total + b2.total + b3.total + r4)]!
      = (assemble4g b1 b2 b3 b4 blk)[((r1 * b2.total + r2) * b3.total + r3) * b4.total + r4]! := by
  rw [assemble4g_get b1 b2 b3 b4 blk r1 r2 r3 r4 h1 h2 h3 h4]
  have ht : Basis.total (b1 ++ b2 ++ b3 ++ b4) = b1.total + b2.total + b3.total + b4.total := by
    simp only [total_append]
  have h := assemble4_get (b1 ++ b2 ++ b3 ++ b4) blkU r1 (b1.total + r2)
    (b1.total + b2.total + r3) (b1.total + b2.total + b3.total + r4)
    (by omega) (by omega) (by omega) (by omega)
  rw [ht] at h
  rw [h]
  exact entry4_append b1 b2 b3 b4 blk blkU hblk r1 r2 r3 r4 h1 h2 h3 h4

end

/-! ## physicists' notation: exchange of the two middle indices

The two middle stages of `wBlock4` are applied in a fixed order, so exchanging the middle pair of
indices exchanges two (finite) summations.  That needs the laws of a commutative ring; the statement
is therefore made over a field, with the instance `fieldTransc e sq pi` (arbitrary interpretations
of the transcendental operations), as in `ContractionLaws`. -/

section Field
variable {F : Type} [Field F] (e sq : F → F) (pi : F)

/-- the weight stages of two different index pairs commute -/
theorem applyW_comm (sb sc : Shell F) (wb wc : Tab3 F) (G : ℕ → ℕ → ℕ → ℕ → F)
    (mb fb mc fc : ℕ) :
    letI := fieldTransc e sq pi
    applyW sc wc (fun m3 a3 => applyW sb wb (fun m2 a2 => G m2 a2 m3 a3) mb fb) mc fc
      = applyW sb wb (fun m2 a2 => applyW sc wc (fun m3 a3 => G m2 a2 m3 a3) mc fc) mb fb := by
  let _ := fieldTransc e sq pi
  unfold applyW
  cases sb.sph <;> cases sc.sph <;> simp only [Bool.false_eq_true, if_true, if_false, sumN_eq_sum]
  · ring
  · rw [Finset.mul_sum]
    refine Finset.sum_congr rfl fun a _ => ?_
    ring
  · rw [Finset.mul_sum]
    refine Finset.sum_congr rfl fun a _ => ?_
    ring
  · simp only [Finset.mul_sum]
    rw [Finset.sum_comm]
    refine Finset.sum_congr rfl fun a _ => Finset.sum_congr rfl fun a' _ => ?_
    ring

/-- `wBlock4` commutes with the exchange of the two middle index pairs: if `raw'` is `raw` with
axes `(m2, a2)` and `(m3, a3)` exchanged, then the block of `(sa, sc, sb, sd)` built from `raw'` is
the block of `(sa, sb, sc, sd)` built from `raw` with the middle index pairs exchanged. -/
theorem wBlock4_middle_swap (sa sb sc sd : Shell F) (wa wb wc wd : Tab3 F) (raw raw' : Tab8 F)
    (hraw : ∀ m1 a1 m2 a2 m3 a3 m4 a4,
      raw'.get8 m1 a1 m3 a3 m2 a2 m4 a4 = raw.get8 m1 a1 m2 a2 m3 a3 m4 a4)
    (ma fa mb fb mc fc md fd : ℕ) :
    letI := fieldTransc e sq pi
    (wBlock4 sa sc sb sd wa wc wb wd raw').get8 ma fa mc fc mb fb md fd
      = (wBlock4 sa sb sc sd wa wb wc wd raw).get8 ma fa mb fb mc fc md fd := by
  let _ := fieldTransc e sq pi
  rw [wBlock4_get8, wBlock4_get8]
  simp only [hraw]
  congr 1
  funext m4 a4
  exact (applyW_comm e sq pi sb sc wb wc
    (fun m2 a2 m3 a3 => applyW sa wa (fun m1 a1 => raw.get8 m1 a1 m2 a2 m3 a3 m4 a4) ma fa)
    mb fb mc fc).symm

/-- **Physicists' notation = middle-index swap.**  If `blk' i k j l` is `blk i j k l` with the
two middle index pairs exchanged, then the array of `(b1, b3, b2, b4)` built from `blk'` is the
array of `(b1, b2, b3, b4)` built from `blk` with the two middle indices exchanged. -/
theorem entry4_middle_swap (b1 b2 b3 b4 : Basis F) (blk blk' : ℕ → ℕ → ℕ → ℕ → Tab8 F)
    (hblk : ∀ i j k l, i < b1.size → j < b2.size → k < b3.size → l < b4.size →
      ∀ m1 a1 m2 a2 m3 a3 m4 a4,
        (blk' i k j l).get8 m1 a1 m3 a3 m2 a2 m4 a4 = (blk i j k l).get8 m1 a1 m2 a2 m3 a3 m4 a4)
    (r1 r2 r3 r4 : ℕ)
    (h1 : r1 < b1.total) (h2 : r2 < b2.total) (h3 : r3 < b3.total) (h4 : r4 < b4.total) :
    letI := fieldTransc e sq pi
    entry4 b1 b3 b2 b4 (quartetBlocks b1 b3 b2 b4 blk') r1 r3 r2 r4
      = entry4 b1 b2 b3 b4 (quartetBlocks b1 b2 b3 b4 blk) r1 r2 r3 r4 := by
  let _ := fieldTransc e sq pi
  obtain ⟨hi, -⟩ := locate_lt b1 r1 h1
  obtain ⟨hj, -⟩ := locate_lt b2 r2 h2
  obtain ⟨hk, -⟩ := locate_lt b3 r3 h3
  obtain ⟨hl, -⟩ := locate_lt b4 r4 h4
  unfold entry4
  simp only []
  rw [quartetBlocks_get b1 b3 b2 b4 blk' _ _ _ _ hi hk hj hl,
    quartetBlocks_get b1 b2 b3 b4 blk _ _ _ _ hi hj hk hl]
  exact wBlock4_middle_swap e sq pi _ _ _ _ _ _ _ _ _ _ (hblk _ _ _ _ hi hj hk hl) _ _ _ _ _ _ _ _

/-- flat-array form: physicists' `⟨r1 r3 | r2 r4⟩`-ordered array of `(b1, b3, b2, b4)` from the
axis-swapped blocks = chemists' array of `(b1, b2, b3, b4)` read at `(r1, r2, r3, r4)`. -/
theorem assemble4g_middle_swap [Inhabited F] (b1 b2 b3 b4 : Basis F) (blk blk' : ℕ → ℕ → ℕ → ℕ → Tab8 F)
    (hblk : ∀ i j k l, i < b1.size → j < b2.size → k < b3.size → l < b4.size →
      ∀ m1 a1 m2 a2 m3 a3 m4 a4,
        (blk' i k j l).get8 m1 a1 m3 a3 m2 a2 m4 a4 = (blk i j k l).get8 m1 a1 m2 a2 m3 a3 m4 a4)
    (r1 r2 r3 r4 : ℕ)
    (h1 : r1 < b1.total) (h2 : r2 < b2.total) (h3 : r3 < b3.total) (h4 : r4 < b4.total) :
    letI := fieldTransc e sq pi
    (assemble4g b1 b3 b2 b4 blk')[((r1 * b3.total + r3) * b2.total + r2) * b4.total + r4]!
      = (assemble4g b1 b2 b3 b4 blk)[((r1 * b2.total + r2) * b3.total + r3) * b4.total + r4]! := by
  let _ := fieldTransc e sq pi
  rw [assemble4g_get b1 b3 b2 b4 blk' r1 r3 r2 r4 h1 h3 h2 h4,
    assemble4g_get b1 b2 b3 b4 blk r1 r2 r3 r4 h1 h2 h3 h4]
  exact entry4_middle_swap e sq pi b1 b2 b3 b4 blk blk' hblk r1 r2 r3 r4 h1 h2 h3 h4

end Field

end GB

