import GBProofs.Basic
import Mathlib.Algebra.Polynomial.Derivative
import Mathlib.Algebra.Polynomial.Eval.Defs
import Mathlib.Tactic.Ring
import Mathlib.Tactic.LinearCombination
import Mathlib.Tactic.Linarith

/-!
# Obara–Saika vertical and Head-Gordon–Pople horizontal recursions = Rys-form specification

* Part A: the generic row tables `rows2` / `rows1` of `GBModel.OneElec` are their recursions.
* Part B: the specification.  `Gh h` is the Gaussian functional over an arbitrary commutative ring
  (moments `0, h, 0, 3h², …`); over `K[X]` (the variable is the Rys variable `s = t²`) with
  `h = (1/(2p))(1 - s)` and centres `PA - s·PC` it gives the 1-D Rys factors `rys1`; the Boys
  functional `boysF F m` sends `s^n` to `F (m+n)`.  `Vspec` is `boysF` of the product of the three
  1-D factors.  The recurrences do not depend on what the sequence `F` is.
* Part C: the three-pass vertical table `vertXYZ` equals `pref * Vspec` wherever
  `m + ax + ay + az < mMax`.
* Part D: the three-pass horizontal table `horiz3` equals any family satisfying the horizontal
  relations wherever `|a| + |b| < n`.
* Part E: the same as C for the two-electron vertical table `vert2`.
* Part F: the electron-transfer step `etStep` is `p·(first RDK recurrence) + q·(second)`.
* Part G: the two-variable functional with shifted centres `Ws` (both RDK recurrences proved),
  the Rys-form specification `Espec` of `[a 0|c 0]`, and the electron-transfer table `etransf`
  equals it wherever `|a| + |c| < mMax`.

All table theorems are statements about the region that the Python code writes; outside it the
Python arrays hold zeros that were never written and nothing is claimed.
-/
open Polynomial

namespace GB

/-! ## A. Generic table lemmas -/
section Tables
variable {α : Type}

theorem rec2_zero (init dummy : α) (step : ℕ → α → α → α) :
    rec2 init dummy step 0 = (init, dummy) := rfl

/-- unfolding of `rec2`: the new row -/
theorem rec2_succ (init dummy : α) (step : ℕ → α → α → α) (a : ℕ) :
    (rec2 init dummy step (a+1)).1
      = step a (rec2 init dummy step a).1 (rec2 init dummy step a).2 := rfl

/-- unfolding of `rec2`: the previous row -/
theorem rec2_succ_snd (init dummy : α) (step : ℕ → α → α → α) (a : ℕ) :
    (rec2 init dummy step (a+1)).2 = (rec2 init dummy step a).1 := rfl

/-- `rec2All … n = (#[r 0, …, r (n-1)], r n, r (n-1))` -/
theorem rec2All_spec (init dummy : α) (step : ℕ → α → α → α) (n : ℕ) :
    (rec2All init dummy step n).1.size = n ∧
    (∀ a (h : a < (rec2All init dummy step n).1.size),
        (rec2All init dummy step n).1[a] = (rec2 init dummy step a).1) ∧
    (rec2All init dummy step n).2.1 = (rec2 init dummy step n).1 ∧
    (rec2All init dummy step n).2.2 = (rec2 init dummy step n).2 := by
  induction n with
  | zero =>
    refine ⟨rfl, fun a h => ?_, rfl, rfl⟩
    simp [rec2All] at h
  | succ n ih =>
    obtain ⟨hs, hg, h1, h2⟩ := ih
    refine ⟨?_, fun a h => ?_, ?_, ?_⟩
    · simp [rec2All, hs]
    · simp only [rec2All]
      rw [Array.getElem_push]
      split
      · rename_i hlt; exact hg a hlt
      · rename_i hge
        have ha : a = n := by
          simp only [rec2All, Array.size_push] at h
          omega
        subst ha
        exact h1
    · simp only [rec2All, rec2, h1, h2]
    · simp only [rec2All, rec2, h1]

/-- the row table is the recursion, inside and outside the materialised part -/
@[simp] theorem rows2_get (n : ℕ) (init dummy : α) (step : ℕ → α → α → α) (a : ℕ) :
    (rows2 n init dummy step).get a = (rec2 init dummy step a).1 := by
  unfold Tab.get rows2
  split
  · rename_i h; exact (rec2All_spec init dummy step n).2.1 a h
  · rfl

/-- induction principle for `rec2`: to establish `P a (r a)` it suffices to treat the initial row
and one step, where the row before the current one is only known for `a > 0` -/
theorem rec2_ind (init dummy : α) (step : ℕ → α → α → α) (P : ℕ → α → Prop)
    (h0 : P 0 init)
    (hs : ∀ a cur prev, P a cur → (0 < a → P (a-1) prev) → P (a+1) (step a cur prev)) :
    ∀ a, P a (rec2 init dummy step a).1 := by
  have key : ∀ a, P a (rec2 init dummy step a).1 ∧
      (0 < a → P (a-1) (rec2 init dummy step a).2) := by
    intro a
    induction a with
    | zero => exact ⟨h0, fun h => absurd h (lt_irrefl 0)⟩
    | succ a ih => exact ⟨hs a _ _ ih.1 ih.2, fun _ => ih.1⟩
  exact fun a => (key a).1

theorem rec1_succ (init : α) (step : ℕ → α → α) (b : ℕ) :
    rec1 init step (b+1) = step b (rec1 init step b) := rfl

theorem rec1All_spec (init : α) (step : ℕ → α → α) (n : ℕ) :
    (rec1All init step n).1.size = n ∧
    (∀ a (h : a < (rec1All init step n).1.size),
        (rec1All init step n).1[a] = rec1 init step a) ∧
    (rec1All init step n).2 = rec1 init step n := by
  induction n with
  | zero =>
    refine ⟨rfl, fun a h => ?_, rfl⟩
    simp [rec1All] at h
  | succ n ih =>
    obtain ⟨hs, hg, h1⟩ := ih
    refine ⟨?_, fun a h => ?_, ?_⟩
    · simp [rec1All, hs]
    · simp only [rec1All]
      rw [Array.getElem_push]
      split
      · rename_i hlt; exact hg a hlt
      · rename_i hge
        have ha : a = n := by
          simp only [rec1All, Array.size_push] at h
          omega
        subst ha
        exact h1
    · simp only [rec1All, rec1, h1]

@[simp] theorem rows1_get (n : ℕ) (init : α) (step : ℕ → α → α) (b : ℕ) :
    (rows1 n init step).get b = rec1 init step b := by
  unfold Tab.get rows1
  split
  · rename_i h; exact (rec1All_spec init step n).2.1 b h
  · rfl

theorem rec1_ind (init : α) (step : ℕ → α → α) (P : ℕ → α → Prop)
    (h0 : P 0 init) (hs : ∀ b old, P b old → P (b+1) (step b old)) :
    ∀ b, P b (rec1 init step b) := by
  intro b
  induction b with
  | zero => exact h0
  | succ b ih => exact hs b _ ih

end Tables

/-! ## B. Specification in Rys form -/
section Functional
variable {R : Type*} [CommRing R]

/-- centred Gaussian moments with `⟨x²⟩ = h`: `1, 0, h, 0, 3h², …` -/
def gm (h : R) : ℕ → R
  | 0 => 1
  | 1 => 0
  | (n+2) => ((n : R) + 1) * h * gm h n

/-- the Gaussian functional with parameter `h = 1/(2p)` over an arbitrary commutative ring -/
noncomputable def Gh (h : R) : R[X] →ₗ[R] R :=
  Polynomial.lsum (fun n => (LinearMap.id : R →ₗ[R] R).smulRight (gm h n))

lemma Gh_monomial (h : R) (n : ℕ) (a : R) : Gh h (monomial n a) = a * gm h n := by
  simp [Gh, Polynomial.lsum_apply, Polynomial.sum_monomial_index]

lemma Gh_one (h : R) : Gh h 1 = 1 := by
  have : (1 : R[X]) = monomial 0 1 := by simp
  rw [this, Gh_monomial]; simp [gm]

theorem Gh_X_mul (h : R) (q : R[X]) : Gh h (X * q) = h * Gh h (derivative q) := by
  induction q using Polynomial.induction_on' with
  | add a b ha hb => simp [mul_add, ha, hb]
  | monomial n a =>
    rw [derivative_monomial, X_mul_monomial, Gh_monomial, Gh_monomial]
    cases n with
    | zero => simp [gm]
    | succ m =>
      cases m with
      | zero => simp [gm, mul_comm]
      | succ k =>
        simp only [Nat.add_sub_cancel, gm]
        push_cast
        ring

/-- 1-D two-centre factor `⟨(x-A)^i (x-B)^j⟩`, `PA = P - A`, `PB = P - B` -/
noncomputable def S2 (h PA PB : R) (i j : ℕ) : R := Gh h ((X + C PA)^i * (X + C PB)^j)

lemma S2_zero (h PA PB : R) : S2 h PA PB 0 0 = 1 := by simp [S2, Gh_one]

theorem S2_succ_i (h PA PB : R) (i j : ℕ) :
    S2 h PA PB (i+1) j = PA * S2 h PA PB i j
      + h * ((i:R) * S2 h PA PB (i-1) j + (j:R) * S2 h PA PB i (j-1)) := by
  unfold S2
  set Q : R[X] := (X + C PA)^i * (X + C PB)^j with hQ
  have h1 : (X + C PA)^(i+1) * (X + C PB)^j = C PA * Q + X * Q := by rw [hQ]; ring
  have h3 : derivative Q = C (i:R) * ((X + C PA)^(i-1) * (X + C PB)^j)
      + C (j:R) * ((X + C PA)^i * (X + C PB)^(j-1)) := by
    rw [hQ]; simp only [derivative_mul, derivative_X_add_C_pow, map_natCast]; ring
  rw [h1, map_add, Gh_X_mul, h3]
  simp only [map_add, ← smul_eq_C_mul, map_smul, smul_eq_mul]

/-- horizontal (transfer) relation: `(x-B) = (x-A) + (A-B)` -/
theorem S2_horizontal (h PA PB : R) (i j : ℕ) :
    S2 h PA PB i (j+1) = S2 h PA PB (i+1) j + (PB - PA) * S2 h PA PB i j := by
  unfold S2
  have : (X + C PA)^i * (X + C PB)^(j+1)
      = (X + C PA)^(i+1) * (X + C PB)^j + C (PB - PA) * ((X + C PA)^i * (X + C PB)^j) := by
    simp only [map_sub]; ring
  rw [this, map_add, ← smul_eq_C_mul, map_smul, smul_eq_mul]

end Functional

section Rys
variable {K : Type} [Field K]

/-- Boys functional: `s^n ↦ F (m+n)` (for the Boys function, `∫₀¹ t^{2m} (t²)^n e^{-T t²} dt`) -/
noncomputable def boysF (F : ℕ → K) (m : ℕ) : K[X] →ₗ[K] K :=
  Polynomial.lsum (fun n => (LinearMap.id : K →ₗ[K] K).smulRight (F (m + n)))

theorem boysF_X_mul (F : ℕ → K) (m : ℕ) (w : K[X]) : boysF F m (X * w) = boysF F (m+1) w := by
  induction w using Polynomial.induction_on' with
  | add a b ha hb => simp [mul_add, ha, hb]
  | monomial n a =>
    simp [boysF, X_mul_monomial, Polynomial.lsum_apply, Polynomial.sum_monomial_index]
    left; ring_nf

lemma boysF_one (F : ℕ → K) (m : ℕ) : boysF F m 1 = F m := by
  have h : boysF F m (monomial 0 (1:K)) = F m := by
    rw [boysF, Polynomial.lsum_apply, Polynomial.sum_monomial_index] <;> simp
  rwa [monomial_zero_one] at h

lemma boysF_C_mul (F : ℕ → K) (m : ℕ) (c : K) (w : K[X]) :
    boysF F m (C c * w) = c * boysF F m w := by
  rw [← smul_eq_C_mul, map_smul, smul_eq_mul]

/-- 1-D Rys factor of the one-electron Coulomb integral: variance `(1/(2p))(1 - s)`,
centre shifted by `-s·PC` -/
noncomputable def rys1 (p PA PB PC : K) (i j : ℕ) : K[X] :=
  S2 (R := K[X]) (C (1/(2*p)) * (1 - X)) (C PA - X * C PC) (C PB - X * C PC) i j

lemma rys1_zero (p PA PB PC : K) : rys1 p PA PB PC 0 0 = 1 := S2_zero _ _ _

/-- Obara–Saika vertical recurrence on one axis (`b = 0`, the other axes carried in `w`),
for an arbitrary sequence `F` -/
theorem os_vertical (F : ℕ → K) (p PA PB PC : K) (w : K[X]) (i m : ℕ) :
    boysF F m (rys1 p PA PB PC (i+1) 0 * w)
      = PA * boysF F m (rys1 p PA PB PC i 0 * w) - PC * boysF F (m+1) (rys1 p PA PB PC i 0 * w)
        + (i:K) * (1/(2*p)) * (boysF F m (rys1 p PA PB PC (i-1) 0 * w)
                               - boysF F (m+1) (rys1 p PA PB PC (i-1) 0 * w)) := by
  unfold rys1
  rw [S2_succ_i]
  simp only [Nat.cast_zero, zero_mul, add_zero]
  simp only [← boysF_X_mul]
  have : ∀ (a b : K[X]), ((C PA - X * C PC) * a + C (1/(2*p)) * (1 - X) * ((i:K[X]) * b)) * w
      = C PA * (a * w) - C PC * (X * (a * w)) + C ((i:K) * (1/(2*p))) * (b * w - X * (b * w)) := by
    intro a b; simp only [map_mul, map_natCast]; ring
  rw [this]
  simp only [map_add, map_sub, ← smul_eq_C_mul, map_smul, smul_eq_mul]

/-- horizontal relation of the 1-D Rys factor -/
theorem rys1_horizontal (p PA PB PC : K) (i j : ℕ) :
    rys1 p PA PB PC i (j+1) = rys1 p PA PB PC (i+1) j + C (PB - PA) * rys1 p PA PB PC i j := by
  unfold rys1
  rw [S2_horizontal]
  congr 2
  simp only [map_sub]; ring

/-- Rys factor on axis `u` -/
noncomputable def rysAx (p : K) (PA PB PC : ℕ → K) (u i j : ℕ) : K[X] :=
  rys1 p (PA u) (PB u) (PC u) i j

/-- **Specification**: the auxiliary integral `[a|b]^{(m)}` without its prefactor: the Boys
functional of order `m` of the product of the three 1-D Rys factors
(`a = (ax, ay, az)`, `b = (bx, by, bz)`). -/
noncomputable def Vspec (F : ℕ → K) (p : K) (PA PB PC : ℕ → K) (m : ℕ) (a b : ℕ × ℕ × ℕ) : K :=
  boysF F m (rysAx p PA PB PC 0 a.1 b.1 * rysAx p PA PB PC 1 a.2.1 b.2.1
    * rysAx p PA PB PC 2 a.2.2 b.2.2)

theorem Vspec_zero (F : ℕ → K) (p : K) (PA PB PC : ℕ → K) (m : ℕ) :
    Vspec F p PA PB PC m (0,0,0) (0,0,0) = F m := by
  simp [Vspec, rysAx, rys1_zero, boysF_one]

variable (F : ℕ → K) (p : K) (PA PB PC : ℕ → K)

/-- vertical recurrence, x axis -/
theorem Vspec_vert_x (m ax ay az : ℕ) :
    Vspec F p PA PB PC m (ax+1, ay, az) (0,0,0)
      = PA 0 * Vspec F p PA PB PC m (ax, ay, az) (0,0,0)
        - PC 0 * Vspec F p PA PB PC (m+1) (ax, ay, az) (0,0,0)
        + (ax:K) * (1/(2*p)) * (Vspec F p PA PB PC m (ax-1, ay, az) (0,0,0)
            - Vspec F p PA PB PC (m+1) (ax-1, ay, az) (0,0,0)) := by
  have e : ∀ r u v : K[X], r * u * v = r * (u * v) := mul_assoc
  simp only [Vspec, rysAx, e]
  exact os_vertical F p (PA 0) (PB 0) (PC 0) _ ax m

/-- vertical recurrence, y axis -/
theorem Vspec_vert_y (m ax ay az : ℕ) :
    Vspec F p PA PB PC m (ax, ay+1, az) (0,0,0)
      = PA 1 * Vspec F p PA PB PC m (ax, ay, az) (0,0,0)
        - PC 1 * Vspec F p PA PB PC (m+1) (ax, ay, az) (0,0,0)
        + (ay:K) * (1/(2*p)) * (Vspec F p PA PB PC m (ax, ay-1, az) (0,0,0)
            - Vspec F p PA PB PC (m+1) (ax, ay-1, az) (0,0,0)) := by
  have e : ∀ u r v : K[X], u * r * v = r * (u * v) := by intros; ring
  simp only [Vspec, rysAx, e]
  exact os_vertical F p (PA 1) (PB 1) (PC 1) _ ay m

/-- vertical recurrence, z axis -/
theorem Vspec_vert_z (m ax ay az : ℕ) :
    Vspec F p PA PB PC m (ax, ay, az+1) (0,0,0)
      = PA 2 * Vspec F p PA PB PC m (ax, ay, az) (0,0,0)
        - PC 2 * Vspec F p PA PB PC (m+1) (ax, ay, az) (0,0,0)
        + (az:K) * (1/(2*p)) * (Vspec F p PA PB PC m (ax, ay, az-1) (0,0,0)
            - Vspec F p PA PB PC (m+1) (ax, ay, az-1) (0,0,0)) := by
  have e : ∀ u r v : K[X], u * r * v = v * (u * r) := by intros; ring
  simp only [Vspec, rysAx, e]
  exact os_vertical F p (PA 2) (PB 2) (PC 2) _ az m

/-- horizontal relation, x axis (`PB - PA = A - B`) -/
theorem Vspec_horiz_x (m ax ay az bx by' bz : ℕ) :
    Vspec F p PA PB PC m (ax, ay, az) (bx+1, by', bz)
      = Vspec F p PA PB PC m (ax+1, ay, az) (bx, by', bz)
        + (PB 0 - PA 0) * Vspec F p PA PB PC m (ax, ay, az) (bx, by', bz) := by
  simp only [Vspec, rysAx]
  rw [rys1_horizontal, ← boysF_C_mul, ← map_add]
  congr 1; ring

/-- horizontal relation, y axis -/
theorem Vspec_horiz_y (m ax ay az bx by' bz : ℕ) :
    Vspec F p PA PB PC m (ax, ay, az) (bx, by'+1, bz)
      = Vspec F p PA PB PC m (ax, ay+1, az) (bx, by', bz)
        + (PB 1 - PA 1) * Vspec F p PA PB PC m (ax, ay, az) (bx, by', bz) := by
  simp only [Vspec, rysAx]
  rw [rys1_horizontal, ← boysF_C_mul, ← map_add]
  congr 1; ring

/-- horizontal relation, z axis -/
theorem Vspec_horiz_z (m ax ay az bx by' bz : ℕ) :
    Vspec F p PA PB PC m (ax, ay, az) (bx, by', bz+1)
      = Vspec F p PA PB PC m (ax, ay, az+1) (bx, by', bz)
        + (PB 2 - PA 2) * Vspec F p PA PB PC m (ax, ay, az) (bx, by', bz) := by
  simp only [Vspec, rysAx]
  rw [rys1_horizontal, ← boysF_C_mul, ← map_add]
  congr 1; ring

end Rys

/-! ## C. The vertical table -/
section VertTable
variable {K : Type} [Field K]

/-- the three vertical recurrences (x with `ay = az = 0`, y with `az = 0`, z for all) for a
family `V m ax ay az`; `w = 1` for the one-electron integrals, `w = ρ/p` for the two-electron ones -/
structure VertRel (PA PC : ℕ → K) (h w : K) (V : ℕ → ℕ → ℕ → ℕ → K) : Prop where
  x : ∀ m ax, V m (ax+1) 0 0 = PA 0 * V m ax 0 0 - PC 0 * V (m+1) ax 0 0
        + (ax:K) * h * (V m (ax-1) 0 0 - w * V (m+1) (ax-1) 0 0)
  y : ∀ m ax ay, V m ax (ay+1) 0 = PA 1 * V m ax ay 0 - PC 1 * V (m+1) ax ay 0
        + (ay:K) * h * (V m ax (ay-1) 0 - w * V (m+1) ax (ay-1) 0)
  z : ∀ m ax ay az, V m ax ay (az+1) = PA 2 * V m ax ay az - PC 2 * V (m+1) ax ay az
        + (az:K) * h * (V m ax ay (az-1) - w * V (m+1) ax ay (az-1))

variable {PA PC : ℕ → K} {h : K} {mMax : ℕ} {base : ℕ → K} {V : ℕ → ℕ → ℕ → ℕ → K}

/-- x pass -/
theorem vertX_get (hV : VertRel PA PC h 1 V) (hb : ∀ m, m < mMax → V m 0 0 0 = base m) :
    ∀ ax m, m + ax < mMax → (vertX PA PC h mMax base).get2 ax m = V m ax 0 0 := by
  intro ax
  unfold vertX Tab.get2
  rw [rows2_get]
  refine rec2_ind _ _ _ (fun a (t : Tab K) => ∀ m, m + a < mMax → t.get m = V m a 0 0) ?_ ?_ ax
  · intro m hm; rw [tab_get, hb m (by omega)]
  · intro a cur prev hc hp m hm
    have hg : m + 1 < mMax := by omega
    simp only [tab_get, vertStep, if_pos hg, num_nat]
    rw [hc m (by omega), hc (m+1) (by omega), hV.x]
    rcases Nat.eq_zero_or_pos a with rfl | ha
    · simp
    · rw [hp ha m (by omega), hp ha (m+1) (by omega), one_mul]

/-- y pass -/
theorem vertXY_get (hV : VertRel PA PC h 1 V) (hb : ∀ m, m < mMax → V m 0 0 0 = base m) :
    ∀ ay ax m, m + ax + ay < mMax → (vertXY PA PC h mMax base).get3 ay ax m = V m ax ay 0 := by
  intro ay
  unfold vertXY Tab.get3
  rw [rows2_get]
  refine rec2_ind _ _ _ (fun a (t : Tab (Tab K)) => ∀ ax m, m + ax + a < mMax → t.get2 ax m = V m ax a 0) ?_ ?_ ay
  · intro ax m hm; exact vertX_get hV hb ax m (by omega)
  · intro a cur prev hc hp ax m hm
    have hg : m + 1 < mMax := by omega
    rw [Tab.get2, tab_get, tab_get]
    simp only [vertStep, if_pos hg, num_nat]
    rw [hc ax m (by omega), hc ax (m+1) (by omega), hV.y]
    rcases Nat.eq_zero_or_pos a with rfl | ha
    · simp
    · rw [hp ha ax m (by omega), hp ha ax (m+1) (by omega), one_mul]

/-- z pass: **abstract vertical table theorem**.  Any family `V` that starts from `base` and
satisfies the three vertical recurrences is what the table holds wherever
`m + ax + ay + az < mMax`. -/
theorem vertXYZ_get (hV : VertRel PA PC h 1 V) (hb : ∀ m, m < mMax → V m 0 0 0 = base m) :
    ∀ az ay ax m, m + ax + ay + az < mMax →
      (vertXYZ PA PC h mMax base).get4 az ay ax m = V m ax ay az := by
  intro az
  unfold vertXYZ Tab.get4
  rw [rows2_get]
  refine rec2_ind _ _ _
    (fun a (t : Tab3 K) => ∀ ay ax m, m + ax + ay + a < mMax → t.get3 ay ax m = V m ax ay a) ?_ ?_ az
  · intro ay ax m hm; exact vertXY_get hV hb ay ax m (by omega)
  · intro a cur prev hc hp ay ax m hm
    have hg : m + 1 < mMax := by omega
    rw [Tab.get3, tab_get, Tab.get2, tab_get, tab_get]
    simp only [vertStep, if_pos hg, num_nat]
    rw [hc ay ax m (by omega), hc ay ax (m+1) (by omega), hV.z]
    rcases Nat.eq_zero_or_pos a with rfl | ha
    · simp
    · rw [hp ha ay ax m (by omega), hp ha ay ax (m+1) (by omega), one_mul]

/-- `pref * Vspec` satisfies the vertical recurrences of the one-electron code -/
theorem vertRel_Vspec (F : ℕ → K) (p pref : K) (PA PB PC : ℕ → K) :
    VertRel PA PC (1/(2*p)) 1
      (fun m ax ay az => pref * Vspec F p PA PB PC m (ax, ay, az) (0,0,0)) where
  x := by intro m ax; rw [Vspec_vert_x]; ring
  y := by intro m ax ay; rw [Vspec_vert_y]; ring
  z := by intro m ax ay az; rw [Vspec_vert_z]; ring

/-- **Vertical table theorem** (`_compute_one_elec_integrals`, vertical recursion).
With the starting values `base m = pref * F m` (for the point-charge integrals `F m = F_m(p·|PC|²)`
and `pref = (2π/p) e^{-ab/p |AB|²}`; the algebra needs neither) every entry `[az][ay][ax][m]` of the
table with `m + ax + ay + az < mMax` is `pref` times the Rys-form value of `[a|0]^{(m)}`.
`PB` does not matter since `b = 0`.

Outside that region the Python array holds zeros that were never written (and the model returns
whatever its guarded steps produce): the theorem says nothing about those entries, and the code
never reads them. -/
theorem vertXYZ_eq_Vspec (F : ℕ → K) (p pref : K) (PA PB PC : ℕ → K) (mMax : ℕ) (base : ℕ → K)
    (hbase : ∀ m, m < mMax → base m = pref * F m)
    (az ay ax m : ℕ) (hm : m + ax + ay + az < mMax) :
    (vertXYZ PA PC (1/(2*p)) mMax base).get4 az ay ax m
      = pref * Vspec F p PA PB PC m (ax, ay, az) (0,0,0) := by
  refine vertXYZ_get (V := fun m ax ay az => pref * Vspec F p PA PB PC m (ax, ay, az) (0,0,0))
    (vertRel_Vspec F p pref PA PB PC) ?_ az ay ax m hm
  intro m hm
  simp only [Vspec_zero]
  exact (hbase m hm).symm

/-- the same with `h` spelled as in `oneElecBlockOrdered` -/
theorem vertXYZ_eq_Vspec' (F : ℕ → K) (p pref : K) (PA PB PC : ℕ → K) (mMax : ℕ) (base : ℕ → K)
    (hbase : ∀ m, m < mMax → base m = pref * F m)
    (az ay ax m : ℕ) (hm : m + ax + ay + az < mMax) :
    (vertXYZ PA PC (Num.nat 1 / (Num.nat 2 * p)) mMax base).get4 az ay ax m
      = pref * Vspec F p PA PB PC m (ax, ay, az) (0,0,0) := by
  have := vertXYZ_eq_Vspec F p pref PA PB PC mMax base hbase az ay ax m hm
  simpa only [num_nat, Nat.cast_one, Nat.cast_ofNat] using this

end VertTable

/-! ## D. The horizontal table -/
section HorizTable
variable {K : Type} [Field K]

/-- the three horizontal relations `g a (b + e_u) = g (a + e_u) b + AB u · g a b` -/
structure HorizRel (AB : ℕ → K) (g : ℕ × ℕ × ℕ → ℕ × ℕ × ℕ → K) : Prop where
  x : ∀ ax ay az bx by' bz, g (ax, ay, az) (bx+1, by', bz)
        = g (ax+1, ay, az) (bx, by', bz) + AB 0 * g (ax, ay, az) (bx, by', bz)
  y : ∀ ax ay az bx by' bz, g (ax, ay, az) (bx, by'+1, bz)
        = g (ax, ay+1, az) (bx, by', bz) + AB 1 * g (ax, ay, az) (bx, by', bz)
  z : ∀ ax ay az bx by' bz, g (ax, ay, az) (bx, by', bz+1)
        = g (ax, ay, az+1) (bx, by', bz) + AB 2 * g (ax, ay, az) (bx, by', bz)

/-- the relations are linear in `g`: they survive contraction (sums over primitives with weights
that do not depend on the angular indices), because `AB` does not depend on the primitive -/
theorem HorizRel.sum {ι : Type} (AB : ℕ → K) (s : Finset ι) (c : ι → K)
    (g : ι → ℕ × ℕ × ℕ → ℕ × ℕ × ℕ → K) (hg : ∀ i ∈ s, HorizRel AB (g i)) :
    HorizRel AB (fun a b => ∑ i ∈ s, c i * g i a b) where
  x := by
    intro ax ay az bx by' bz
    rw [Finset.mul_sum, ← Finset.sum_add_distrib]
    exact Finset.sum_congr rfl fun i hi => by rw [(hg i hi).x]; ring
  y := by
    intro ax ay az bx by' bz
    rw [Finset.mul_sum, ← Finset.sum_add_distrib]
    exact Finset.sum_congr rfl fun i hi => by rw [(hg i hi).y]; ring
  z := by
    intro ax ay az bx by' bz
    rw [Finset.mul_sum, ← Finset.sum_add_distrib]
    exact Finset.sum_congr rfl fun i hi => by rw [(hg i hi).z]; ring

theorem HorizRel.smul (AB : ℕ → K) (c : K) (g : ℕ × ℕ × ℕ → ℕ × ℕ × ℕ → K) (hg : HorizRel AB g) :
    HorizRel AB (fun a b => c * g a b) where
  x := by intro ax ay az bx by' bz; rw [hg.x]; ring
  y := by intro ax ay az bx by' bz; rw [hg.y]; ring
  z := by intro ax ay az bx by' bz; rw [hg.z]; ring

variable {AB : ℕ → K} {n : ℕ} {h0 : Tab3 K} {g : ℕ × ℕ × ℕ → ℕ × ℕ × ℕ → K}

/-- x pass of `horiz3` -/
def horizX (AB : ℕ → K) (n lb : ℕ) (h0 : Tab3 K) : Tab (Tab3 K) :=
  rows1 (lb + 1) h0 fun b old =>
    tab3 (n - (b + 1)) n n fun ax ay az =>
      horizStep (AB 0) n (old.get3 ax ay az) (old.get3 (ax+1) ay az) ax

/-- y pass of `horiz3` -/
def horizY (AB : ℕ → K) (n lb la : ℕ) (h0 : Tab3 K) : Tab (Tab (Tab3 K)) :=
  rows1 (lb + 1) (tab (lb + 1) fun bx => (horizX AB n lb h0).get bx) fun b old =>
    tab (lb + 1) fun bx => tab3 (la + 1) (n - (b + 1)) n fun ax ay az =>
      horizStep (AB 1) n ((old.get bx).get3 ax ay az) ((old.get bx).get3 ax (ay+1) az) ay

theorem horiz3_eq (AB : ℕ → K) (n lb la : ℕ) (h0 : Tab3 K) :
    horiz3 AB n lb la h0 =
      rows1 (lb + 1) (tab (lb + 1) fun by' => tab (lb + 1) fun bx =>
          ((horizY AB n lb la h0).get by').get bx) fun b old =>
        tab2 (lb + 1) (lb + 1) fun by' bx => tab3 (la + 1) (la + 1) (n - (b + 1)) fun ax ay az =>
          horizStep (AB 2) n ((old.get2 by' bx).get3 ax ay az)
            ((old.get2 by' bx).get3 ax ay (az+1)) az := rfl

theorem horizX_get (hg : HorizRel AB g)
    (h00 : ∀ ax ay az, ax + ay + az < n → h0.get3 ax ay az = g (ax, ay, az) (0,0,0)) (lb : ℕ) :
    ∀ bx ax ay az, ax + ay + az + bx < n →
      ((horizX AB n lb h0).get bx).get3 ax ay az = g (ax, ay, az) (bx, 0, 0) := by
  intro bx
  unfold horizX
  rw [rows1_get]
  refine rec1_ind _ _
    (fun b (t : Tab3 K) => ∀ ax ay az, ax + ay + az + b < n → t.get3 ax ay az = g (ax, ay, az) (b, 0, 0))
    ?_ ?_ bx
  · intro ax ay az hm; exact h00 ax ay az (by omega)
  · intro b old ho ax ay az hm
    have hgd : ax + 1 < n := by omega
    rw [tab3_get]
    simp only [horizStep, if_pos hgd]
    rw [ho ax ay az (by omega), ho (ax+1) ay az (by omega), hg.x]

theorem horizY_get (hg : HorizRel AB g)
    (h00 : ∀ ax ay az, ax + ay + az < n → h0.get3 ax ay az = g (ax, ay, az) (0,0,0)) (lb la : ℕ) :
    ∀ by' bx ax ay az, ax + ay + az + bx + by' < n →
      (((horizY AB n lb la h0).get by').get bx).get3 ax ay az = g (ax, ay, az) (bx, by', 0) := by
  intro by'
  unfold horizY
  rw [rows1_get]
  refine rec1_ind _ _
    (fun b (t : Tab (Tab3 K)) => ∀ bx ax ay az, ax + ay + az + bx + b < n →
      (t.get bx).get3 ax ay az = g (ax, ay, az) (bx, b, 0))
    ?_ ?_ by'
  · intro bx ax ay az hm
    rw [tab_get]
    exact horizX_get hg h00 lb bx ax ay az (by omega)
  · intro b old ho bx ax ay az hm
    have hgd : ay + 1 < n := by omega
    rw [tab_get, tab3_get]
    simp only [horizStep, if_pos hgd]
    rw [ho bx ax ay az (by omega), ho bx ax (ay+1) az (by omega), hg.y]

/-- **Abstract horizontal table theorem** (Head-Gordon–Pople recursion of
`_compute_one_elec_integrals`, also used twice by `_compute_two_elec_integrals`).
If `h0[ax][ay][az]` agrees with `g (ax,ay,az) (0,0,0)` for `ax + ay + az < n` and `g` satisfies the
horizontal relations, then `H[bz][by][bx][ax][ay][az] = g (ax,ay,az) (bx,by,bz)` wherever
`|a| + |b| < n`.  The materialisation bounds `lb`, `la` of `horiz3` play no role (in particular the
statement holds for `b_i ≤ lb`, `a_i ≤ la`, which is what the selection reads).
Outside the region `|a| + |b| < n` the Python array holds unwritten zeros / values computed from
them; the theorem says nothing there. -/
theorem horiz3_get (hg : HorizRel AB g)
    (h00 : ∀ ax ay az, ax + ay + az < n → h0.get3 ax ay az = g (ax, ay, az) (0,0,0)) (lb la : ℕ) :
    ∀ bz by' bx ax ay az, ax + ay + az + bx + by' + bz < n →
      ((horiz3 AB n lb la h0).get3 bz by' bx).get3 ax ay az = g (ax, ay, az) (bx, by', bz) := by
  intro bz
  change ∀ by' bx ax ay az, _ →
    (((horiz3 AB n lb la h0).get bz).get2 by' bx).get3 ax ay az = _
  rw [horiz3_eq, rows1_get]
  refine rec1_ind _ _
    (fun b (t : Tab (Tab (Tab3 K))) => ∀ by' bx ax ay az, ax + ay + az + bx + by' + b < n →
      (t.get2 by' bx).get3 ax ay az = g (ax, ay, az) (bx, by', b))
    ?_ ?_ bz
  · intro by' bx ax ay az hm
    rw [Tab.get2, tab_get, tab_get]
    exact horizY_get hg h00 lb la by' bx ax ay az (by omega)
  · intro b old ho by' bx ax ay az hm
    have hgd : az + 1 < n := by omega
    rw [tab2_get, tab3_get]
    simp only [horizStep, if_pos hgd]
    rw [ho by' bx ax ay az (by omega), ho by' bx ax ay (az+1) (by omega), hg.z]

/-- `Vspec` (at any auxiliary order `m`, times any constant) satisfies the horizontal relations
with `AB = PB - PA` (`= A - B`) -/
theorem horizRel_Vspec (F : ℕ → K) (p c : K) (PA PB PC : ℕ → K) (m : ℕ) :
    HorizRel (fun u => PB u - PA u) (fun a b => c * Vspec F p PA PB PC m a b) where
  x := by intro ax ay az bx by' bz; rw [Vspec_horiz_x]; ring
  y := by intro ax ay az bx by' bz; rw [Vspec_horiz_y]; ring
  z := by intro ax ay az bx by' bz; rw [Vspec_horiz_z]; ring

/-- instance of the horizontal theorem for one primitive pair -/
theorem horiz3_eq_Vspec (F : ℕ → K) (p c : K) (PA PB PC : ℕ → K) (n lb la : ℕ) (h0 : Tab3 K)
    (h00 : ∀ ax ay az, ax + ay + az < n →
      h0.get3 ax ay az = c * Vspec F p PA PB PC 0 (ax, ay, az) (0,0,0))
    (bz by' bx ax ay az : ℕ) (hm : ax + ay + az + bx + by' + bz < n) :
    ((horiz3 (fun u => PB u - PA u) n lb la h0).get3 bz by' bx).get3 ax ay az
      = c * Vspec F p PA PB PC 0 (ax, ay, az) (bx, by', bz) :=
  horiz3_get (horizRel_Vspec F p c PA PB PC 0) h00 lb la bz by' bx ax ay az hm

end HorizTable

/-! ## E. The two-electron vertical table -/
section Vert2
variable {K : Type} [Field K]

/-- 1-D Rys factor of the two-electron integral `[a 0|0 0]`: variance `(1/(2p))(1 - w s)` with
`w = ρ/p`, centre `PA - s·WQ` with `WQ = (ρ/p)(P - Q)` (the second power is 0, its centre is
irrelevant) -/
noncomputable def rys2 (p w PA WQ : K) (i : ℕ) : K[X] :=
  S2 (R := K[X]) (C (1/(2*p)) * (1 - C w * X)) (C PA - X * C WQ) 0 i 0

lemma rys2_zero (p w PA WQ : K) : rys2 p w PA WQ 0 = 1 := S2_zero _ _ _

/-- for `w = 1` this is the one-electron factor -/
lemma rys2_one (p PA PB PC : K) (i : ℕ) : rys2 p 1 PA PC i = rys1 p PA PB PC i 0 := by
  simp [rys2, rys1, S2]

/-- vertical recurrence of the two-electron integrals on one axis, for an arbitrary sequence `F`:
`S2_succ_i` with the Rys parameters is exactly the formula of `vertStep2` -/
theorem os_vertical2 (F : ℕ → K) (p w PA WQ : K) (v : K[X]) (i m : ℕ) :
    boysF F m (rys2 p w PA WQ (i+1) * v)
      = PA * boysF F m (rys2 p w PA WQ i * v) - WQ * boysF F (m+1) (rys2 p w PA WQ i * v)
        + (i:K) * (1/(2*p)) * (boysF F m (rys2 p w PA WQ (i-1) * v)
                               - w * boysF F (m+1) (rys2 p w PA WQ (i-1) * v)) := by
  unfold rys2
  rw [S2_succ_i]
  simp only [Nat.cast_zero, zero_mul, add_zero]
  simp only [← boysF_X_mul]
  have : ∀ (a b : K[X]),
      ((C PA - X * C WQ) * a + C (1/(2*p)) * (1 - C w * X) * ((i:K[X]) * b)) * v
      = C PA * (a * v) - C WQ * (X * (a * v))
        + C ((i:K) * (1/(2*p))) * (b * v - C w * (X * (b * v))) := by
    intro a b; simp only [map_mul, map_natCast]; ring
  rw [this]
  simp only [map_add, map_sub, ← smul_eq_C_mul, map_smul, smul_eq_mul]

/-- **Specification** of `[a 0|0 0]^{(m)}` without its prefactor -/
noncomputable def Vspec2 (F : ℕ → K) (p w : K) (PA WQ : ℕ → K) (m : ℕ) (a : ℕ × ℕ × ℕ) : K :=
  boysF F m (rys2 p w (PA 0) (WQ 0) a.1 * rys2 p w (PA 1) (WQ 1) a.2.1
    * rys2 p w (PA 2) (WQ 2) a.2.2)

theorem Vspec2_zero (F : ℕ → K) (p w : K) (PA WQ : ℕ → K) (m : ℕ) :
    Vspec2 F p w PA WQ m (0,0,0) = F m := by
  simp [Vspec2, rys2_zero, boysF_one]

/-- with `w = 1` and `WQ = PC` the two-electron specification is the one-electron one -/
theorem Vspec2_one (F : ℕ → K) (p : K) (PA PB PC : ℕ → K) (m : ℕ) (a : ℕ × ℕ × ℕ) :
    Vspec2 F p 1 PA PC m a = Vspec F p PA PB PC m a (0,0,0) := by
  simp only [Vspec2, Vspec, rysAx]
  rw [rys2_one p _ (PB 0), rys2_one p _ (PB 1), rys2_one p _ (PB 2)]

theorem vertRel_Vspec2 (F : ℕ → K) (p w pref : K) (PA WQ : ℕ → K) :
    VertRel PA WQ (1/(2*p)) w (fun m ax ay az => pref * Vspec2 F p w PA WQ m (ax, ay, az)) where
  x := by
    intro m ax
    have e : ∀ r u v : K[X], r * u * v = r * (u * v) := mul_assoc
    simp only [Vspec2, e]
    rw [os_vertical2]; ring
  y := by
    intro m ax ay
    have e : ∀ u r v : K[X], u * r * v = r * (u * v) := by intros; ring
    simp only [Vspec2, e]
    rw [os_vertical2]; ring
  z := by
    intro m ax ay az
    have e : ∀ u r v : K[X], u * r * v = v * (u * r) := by intros; ring
    simp only [Vspec2, e]
    rw [os_vertical2]; ring

variable {PA WQ : ℕ → K} {h w : K} {mMax : ℕ} {base : ℕ → K} {V : ℕ → ℕ → ℕ → ℕ → K}

/-- x pass of `vert2` -/
def vert2X (PA WQ : ℕ → K) (h w : K) (mMax : ℕ) (base : ℕ → K) : Tab (Tab K) :=
  rows2 mMax (tab mMax base) (tab 0 fun _ => Num.nat 0) fun a cur prev =>
    tab (mMax - (a + 1)) fun m =>
      vertStep2 (PA 0) (WQ 0) h w mMax a (cur.get m) (prev.get m) (cur.get (m+1)) (prev.get (m+1)) m

/-- y pass of `vert2` -/
def vert2XY (PA WQ : ℕ → K) (h w : K) (mMax : ℕ) (base : ℕ → K) : Tab (Tab (Tab K)) :=
  rows2 mMax (vert2X PA WQ h w mMax base) (tab 0 fun _ => tab 0 fun _ => Num.nat 0)
    fun a cur prev =>
      tab (mMax - (a + 1)) fun ax => tab (mMax - (a + 1) - ax) fun m =>
        vertStep2 (PA 1) (WQ 1) h w mMax a (cur.get2 ax m) (prev.get2 ax m) (cur.get2 ax (m+1))
          (prev.get2 ax (m+1)) m

theorem vert2_eq (PA WQ : ℕ → K) (h w : K) (mMax : ℕ) (base : ℕ → K) :
    vert2 PA WQ h w mMax base =
      rows2 mMax (vert2XY PA WQ h w mMax base)
        (tab 0 fun _ => tab 0 fun _ => tab 0 fun _ => Num.nat 0) fun a cur prev =>
          tab (mMax - (a + 1)) fun ay => tab (mMax - (a + 1) - ay) fun ax =>
            tab (mMax - (a + 1) - ay - ax) fun m =>
              vertStep2 (PA 2) (WQ 2) h w mMax a (cur.get3 ay ax m) (prev.get3 ay ax m)
                (cur.get3 ay ax (m+1)) (prev.get3 ay ax (m+1)) m := rfl

theorem vert2X_get (hV : VertRel PA WQ h w V) (hb : ∀ m, m < mMax → V m 0 0 0 = base m) :
    ∀ ax m, m + ax < mMax → (vert2X PA WQ h w mMax base).get2 ax m = V m ax 0 0 := by
  intro ax
  unfold vert2X Tab.get2
  rw [rows2_get]
  refine rec2_ind _ _ _ (fun a (t : Tab K) => ∀ m, m + a < mMax → t.get m = V m a 0 0) ?_ ?_ ax
  · intro m hm; rw [tab_get, hb m (by omega)]
  · intro a cur prev hc hp m hm
    have hg : m + 1 < mMax := by omega
    simp only [tab_get, vertStep2, if_pos hg, num_nat]
    rw [hc m (by omega), hc (m+1) (by omega), hV.x]
    rcases Nat.eq_zero_or_pos a with rfl | ha
    · simp
    · rw [hp ha m (by omega), hp ha (m+1) (by omega)]

theorem vert2XY_get (hV : VertRel PA WQ h w V) (hb : ∀ m, m < mMax → V m 0 0 0 = base m) :
    ∀ ay ax m, m + ax + ay < mMax →
      (vert2XY PA WQ h w mMax base).get3 ay ax m = V m ax ay 0 := by
  intro ay
  unfold vert2XY Tab.get3
  rw [rows2_get]
  refine rec2_ind _ _ _
    (fun a (t : Tab (Tab K)) => ∀ ax m, m + ax + a < mMax → t.get2 ax m = V m ax a 0) ?_ ?_ ay
  · intro ax m hm; exact vert2X_get hV hb ax m (by omega)
  · intro a cur prev hc hp ax m hm
    have hg : m + 1 < mMax := by omega
    rw [Tab.get2, tab_get, tab_get]
    simp only [vertStep2, if_pos hg, num_nat]
    rw [hc ax m (by omega), hc ax (m+1) (by omega), hV.y]
    rcases Nat.eq_zero_or_pos a with rfl | ha
    · simp
    · rw [hp ha ax m (by omega), hp ha ax (m+1) (by omega)]

/-- **abstract vertical table theorem for `vert2`** -/
theorem vert2_get (hV : VertRel PA WQ h w V) (hb : ∀ m, m < mMax → V m 0 0 0 = base m) :
    ∀ az ay ax m, m + ax + ay + az < mMax →
      (vert2 PA WQ h w mMax base).get4 az ay ax m = V m ax ay az := by
  intro az
  rw [vert2_eq]
  unfold Tab.get4
  rw [rows2_get]
  refine rec2_ind _ _ _
    (fun a (t : Tab3 K) => ∀ ay ax m, m + ax + ay + a < mMax → t.get3 ay ax m = V m ax ay a)
    ?_ ?_ az
  · intro ay ax m hm; exact vert2XY_get hV hb ay ax m (by omega)
  · intro a cur prev hc hp ay ax m hm
    have hg : m + 1 < mMax := by omega
    rw [Tab.get3, tab_get, Tab.get2, tab_get, tab_get]
    simp only [vertStep2, if_pos hg, num_nat]
    rw [hc ay ax m (by omega), hc ay ax (m+1) (by omega), hV.z]
    rcases Nat.eq_zero_or_pos a with rfl | ha
    · simp
    · rw [hp ha ay ax m (by omega), hp ha ay ax (m+1) (by omega)]

/-- **Vertical table theorem of the two-electron code** (`_compute_two_elec_integrals`, vertical
recursion): with `base m = pref * F m`, `h = 1/(2p)`, `w = ρ/p`, `WQ = (ρ/p)(P-Q)`, every entry
`[az][ay][ax][m]` with `m + ax + ay + az < mMax` is `pref` times the Rys-form value of
`[a 0|0 0]^{(m)}`.  Outside that region the Python array holds unwritten zeros and the theorem
says nothing. -/
theorem vert2_eq_Vspec2 (F : ℕ → K) (p w pref : K) (PA WQ : ℕ → K) (mMax : ℕ) (base : ℕ → K)
    (hbase : ∀ m, m < mMax → base m = pref * F m)
    (az ay ax m : ℕ) (hm : m + ax + ay + az < mMax) :
    (vert2 PA WQ (1/(2*p)) w mMax base).get4 az ay ax m
      = pref * Vspec2 F p w PA WQ m (ax, ay, az) := by
  refine vert2_get (V := fun m ax ay az => pref * Vspec2 F p w PA WQ m (ax, ay, az))
    (vertRel_Vspec2 F p w pref PA WQ) ?_ az ay ax m hm
  intro m hm
  simp only [Vspec2_zero]
  exact (hbase m hm).symm

/-- the same with `h` spelled as in `eriGeneral` -/
theorem vert2_eq_Vspec2' (F : ℕ → K) (p w pref : K) (PA WQ : ℕ → K) (mMax : ℕ) (base : ℕ → K)
    (hbase : ∀ m, m < mMax → base m = pref * F m)
    (az ay ax m : ℕ) (hm : m + ax + ay + az < mMax) :
    (vert2 PA WQ (Num.nat 1 / (Num.nat 2 * p)) w mMax base).get4 az ay ax m
      = pref * Vspec2 F p w PA WQ m (ax, ay, az) := by
  have := vert2_eq_Vspec2 F p w pref PA WQ mMax base hbase az ay ax m hm
  simpa only [num_nat, Nat.cast_one, Nat.cast_ofNat] using this

end Vert2

/-! ## F. The electron-transfer step as a combination of the two Rys (RDK) recurrences -/
section ETransfer
variable {R : Type*} [CommRing R]

/-- two-variable centred Gaussian functional on monomials `y₁^m y₂^n` via the Wick recursion;
`a = σ₁₁`, `b = σ₁₂`, `c = σ₂₂` in an arbitrary commutative ring (`K[X]` for the Rys form) -/
def W (a b c : R) : ℕ → ℕ → R
  | 0, 0 => 1
  | 0, 1 => 0
  | 0, n+2 => c * ((n : R) + 1) * W a b c 0 n
  | m+1, n => a * (m : R) * W a b c (m - 1) n + b * (n : R) * W a b c m (n - 1)
termination_by m n => (m, n)
decreasing_by
  all_goals simp_wf
  · right; omega
  · left; omega
  · left; omega

lemma W_succ (a b c : R) (m n : ℕ) :
    W a b c (m+1) n = a * (m : R) * W a b c (m - 1) n + b * (n : R) * W a b c m (n - 1) := by
  rw [W]

/-- consistency (Isserlis): pairing the new y₂ first gives the same value -/
theorem W_consistent (a b c : R) : ∀ m n : ℕ,
    W a b c m (n+1) = b * (m : R) * W a b c (m - 1) n + c * (n : R) * W a b c m (n - 1) := by
  intro m
  induction m using Nat.strong_induction_on with
  | _ m ih =>
    intro n
    match m with
    | 0 =>
      match n with
      | 0 => simp [W]
      | n+1 => rw [W]; simp
    | m+1 =>
      match n with
      | 0 =>
        -- W (m+1) 1 = a m W (m-1) 1 + b W m 0 ; want b (m+1) W m 0
        have hdef := W_succ a b c m 1
        have hprev : W a b c (m - 1) 1 = b * ((m - 1 : ℕ) : R) * W a b c (m - 1 - 1) 0 := by
          have := ih (m - 1) (by omega) 0
          simpa using this
        match m with
        | 0 => simp [W_succ]
        | m+1 =>
          have hm0 := W_succ a b c m 0
          simp only [Nat.add_sub_cancel, Nat.cast_zero, mul_zero, zero_mul, add_zero] at hm0 hprev hdef ⊢
          push_cast at *
          linear_combination hdef + (a * ((m:R) + 1)) * hprev - (b * ((m:R) + 1)) * hm0
      | n+1 =>
        match m with
        | 0 =>
          -- W 1 (n+2) = b (n+2) W 0 (n+1); rhs = b W 0 (n+1) + c (n+1) W 1 n ; W 1 n = b n W 0 (n-1); W 0 (n+1) = c n W 0 (n-1)
          have h1 := W_succ a b c 0 (n+2)
          have h2 := W_succ a b c 0 n
          have h3 := ih 0 (by omega) n
          simp only [Nat.add_sub_cancel, Nat.cast_zero, mul_zero, zero_mul, zero_add, Nat.sub_self] at h1 h2 h3 ⊢
          push_cast at *
          linear_combination h1 + (c * ((n:R) + 1)) * (-h2) + (b * ((n:R)+1)) * h3
        | m+1 =>
          have hgoal := W_succ a b c (m+1) (n+2)
          have hIHm := ih m (by omega) (n+1)
          have hW := W_succ a b c (m+1) n
          have hdef := W_succ a b c m (n+1)
          have hcons := ih (m+1) (by omega) n
          simp only [Nat.add_sub_cancel] at hgoal hIHm hW hdef hcons ⊢
          push_cast at *
          linear_combination hgoal + (a * ((m:R)+1)) * hIHm - (c * ((n:R)+1)) * hW
            - (b * ((m:R)+1)) * hdef + (b * ((n:R)+1)) * hcons

/-- the two Rys–Dupuis–King recurrences of a 2-D integral family `I n m` (`n`: electron 1, `m`:
electron 2) with centre shifts `c1`, `c2` and covariances `b10`, `b00`, `b01` -/
structure RDK2 (c1 c2 b10 b00 b01 : R) (I : ℕ → ℕ → R) : Prop where
  a : ∀ n m, I (n+1) m = c1 * I n m + b10 * (n:R) * I (n-1) m + b00 * (m:R) * I n (m-1)
  c : ∀ n m, I n (m+1) = c2 * I n m + b00 * (n:R) * I (n-1) m + b01 * (m:R) * I n (m-1)

/-- the Wick functional satisfies both recurrences (centred case); the second one is the
consistency (Isserlis) lemma -/
theorem W_rdk2 (a b c : R) : RDK2 0 0 a b c (W a b c) where
  a := fun n m => by rw [W_succ]; ring
  c := fun n m => by rw [W_consistent]; ring

variable {K : Type} [Field K] [CharZero K]

/-- **The electron-transfer relation is `p·(first RDK recurrence) + q·(second)`.**
Let `I n m : K[s]` satisfy the two RDK recurrences with the Rys parameters of a primitive quartet
(`w = ρ/p = q/(p+q)`, `w' = ρ/q = p/(p+q)`, `PQ = (P-Q)_u`, `B₀₀ = s/(2(p+q))`,
`B₁₀ = (1/(2p))(1 - w s)`, `B₀₁ = (1/(2q))(1 - w' s)`, `C₀₀ = PA - s·w·PQ`, `C₀₀' = QC + s·w'·PQ`).
In the combination all `s`-dependence cancels, so for every linear functional `L` (the Boys
functional) and every cofactor `v` (the other two axes) the values `E n m = L (I n m · v)` satisfy
the relation with constant coefficients that `etStep` implements. -/
theorem etransfer_of_rdk (p q w w' PA QC PQ : K) (hp : p ≠ 0) (hq : q ≠ 0) (hpq : p + q ≠ 0)
    (hw : w * (p + q) = q) (hw' : w' * (p + q) = p)
    (I : ℕ → ℕ → K[X])
    (hI : RDK2 (C PA - X * C (w * PQ)) (C QC + X * C (w' * PQ))
      (C (1/(2*p)) * (1 - C w * X)) (C (1/(2*(p+q))) * X) (C (1/(2*q)) * (1 - C w' * X)) I)
    (L : K[X] →ₗ[K] K) (v : K[X]) (n m : ℕ) :
    L (I n (m+1) * v) = (QC + p / q * PA) * L (I n m * v)
      + (n:K) * (1/(2*q)) * L (I (n-1) m * v) + (m:K) * (1/(2*q)) * L (I n (m-1) * v)
      - p / q * L (I (n+1) m * v) := by
  have hwq : p * w = q * w' := by
    have : (p * w - q * w') * (p + q) = 0 := by linear_combination p * hw - q * hw'
    rcases mul_eq_zero.mp this with h | h
    · linear_combination h
    · exact absurd h hpq
  have k1 : C p * (C PA - X * C (w * PQ)) + C q * (C QC + X * C (w' * PQ))
      = C (p * PA + q * QC) := by
    have : C p * (C PA - X * C (w * PQ)) + C q * (C QC + X * C (w' * PQ))
        = C (p * PA + q * QC) + C ((q * w' - p * w) * PQ) * X := by
      simp only [map_mul, map_sub, map_add]; ring
    rw [this, hwq, sub_self, zero_mul, map_zero, zero_mul, add_zero]
  have k2 : C p * (C (1/(2*p)) * (1 - C w * X)) + C q * (C (1/(2*(p+q))) * X) = C (1/2) := by
    have e : q * (1/(2*(p+q))) - p * (1/(2*p)) * w = 0 := by
      field_simp; linear_combination (-1:K) * hw
    have e1 : p * (1/(2*p)) = 1/2 := by field_simp
    have : C p * (C (1/(2*p)) * (1 - C w * X)) + C q * (C (1/(2*(p+q))) * X)
        = C (p * (1/(2*p))) + C (q * (1/(2*(p+q))) - p * (1/(2*p)) * w) * X := by
      simp only [map_mul, map_sub]; ring
    rw [this, e, e1, map_zero, zero_mul, add_zero]
  have k3 : C p * (C (1/(2*(p+q))) * X) + C q * (C (1/(2*q)) * (1 - C w' * X)) = C (1/2) := by
    have e : p * (1/(2*(p+q))) - q * (1/(2*q)) * w' = 0 := by
      field_simp; linear_combination (-1:K) * hw'
    have e1 : q * (1/(2*q)) = 1/2 := by field_simp
    have : C p * (C (1/(2*(p+q))) * X) + C q * (C (1/(2*q)) * (1 - C w' * X))
        = C (q * (1/(2*q))) + C (p * (1/(2*(p+q))) - q * (1/(2*q)) * w') * X := by
      simp only [map_mul, map_sub]; ring
    rw [this, e, e1, map_zero, zero_mul, add_zero]
  obtain ⟨c0, hc0⟩ : ∃ c0 : K, c0 = p * PA + q * QC := ⟨_, rfl⟩
  rw [← hc0] at k1
  have key : C q * (I n (m+1) * v) = C c0 * (I n m * v)
      + C ((n:K) * (1/2)) * (I (n-1) m * v) + C ((m:K) * (1/2)) * (I n (m-1) * v)
      - C p * (I (n+1) m * v) := by
    simp only [map_mul, map_natCast]
    linear_combination (C q * v) * hI.c n m + (C p * v) * hI.a n m + (I n m * v) * k1
      + ((n:K[X]) * I (n-1) m * v) * k2 + ((m:K[X]) * I n (m-1) * v) * k3
  have key2 := congrArg L key
  simp only [map_add, map_sub, ← smul_eq_C_mul, map_smul, smul_eq_mul] at key2
  rw [hc0] at key2
  have hL : L (I n (m+1) * v) = (q * L (I n (m+1) * v)) / q := by field_simp
  rw [hL, key2]
  field_simp
  ring

/-- the same statement in terms of the model's `etStep` (index `a` on the transferred-from axis,
`c` on the transferred-to axis), with the parameters as `eriGeneral` passes them -/
theorem etStep_of_rdk (p q w w' PA QC PQ : K) (hp : p ≠ 0) (hq : q ≠ 0) (hpq : p + q ≠ 0)
    (hw : w * (p + q) = q) (hw' : w' * (p + q) = p)
    (I : ℕ → ℕ → K[X])
    (hI : RDK2 (C PA - X * C (w * PQ)) (C QC + X * C (w' * PQ))
      (C (1/(2*p)) * (1 - C w * X)) (C (1/(2*(p+q))) * X) (C (1/(2*q)) * (1 - C w' * X)) I)
    (L : K[X] →ₗ[K] K) (v : K[X]) (mMax c a : ℕ) (ha : a + 1 < mMax) :
    etStep (QC + p / q * PA) (p / q) (Num.nat 1 / (Num.nat 2 * q)) mMax c a
      (L (I a c * v)) (L (I (a-1) c * v)) (L (I (a+1) c * v)) (L (I a (c-1) * v))
      = L (I a (c+1) * v) := by
  rw [etransfer_of_rdk p q w w' PA QC PQ hp hq hpq hw hw' I hI L v a c]
  simp only [etStep, if_pos ha, num_nat, Nat.cast_one, Nat.cast_ofNat]

end ETransfer

/-! ## G. Two-variable Gaussian functional with shifted centres, electron-transfer table -/
section Shifted
variable {R : Type*} [CommRing R]

/-- the 2-D integral family `⟨(y₁+c1)^m (y₂+c2)^n⟩` of a centred Gaussian pair with covariances
`a = σ₁₁`, `b = σ₁₂`, `c = σ₂₂`, *defined* by the first RDK recurrence (and the 1-D recurrence on
the second variable for `m = 0`) -/
def Ws (c1 c2 a b c : R) : ℕ → ℕ → R
  | 0, 0 => 1
  | 0, 1 => c2
  | 0, n+2 => c2 * Ws c1 c2 a b c 0 (n+1) + c * ((n : R) + 1) * Ws c1 c2 a b c 0 n
  | m+1, n => c1 * Ws c1 c2 a b c m n + a * (m : R) * Ws c1 c2 a b c (m - 1) n
      + b * (n : R) * Ws c1 c2 a b c m (n - 1)
termination_by m n => (m, n)
decreasing_by
  all_goals simp_wf
  · right; omega
  · right; omega
  · left; omega
  · left; omega
  · left; omega

lemma Ws_succ (c1 c2 a b c : R) (m n : ℕ) :
    Ws c1 c2 a b c (m+1) n = c1 * Ws c1 c2 a b c m n + a * (m : R) * Ws c1 c2 a b c (m - 1) n
      + b * (n : R) * Ws c1 c2 a b c m (n - 1) := by
  rw [Ws]

theorem Ws_consistent (c1 c2 a b c : R) : ∀ m n : ℕ,
    Ws c1 c2 a b c m (n+1) = c2 * Ws c1 c2 a b c m n + b * (m : R) * Ws c1 c2 a b c (m - 1) n
      + c * (n : R) * Ws c1 c2 a b c m (n - 1) := by
  intro m
  induction m using Nat.strong_induction_on with
  | _ m ih =>
    intro n
    match m with
    | 0 =>
      match n with
      | 0 => simp [Ws]
      | n+1 => rw [Ws]; simp
    | m+1 =>
      have hdef := Ws_succ c1 c2 a b c m (n+1)
      have ih1 := ih m (by omega) n
      have ih2 := ih (m-1) (by omega) n
      have hd2 := Ws_succ c1 c2 a b c m n
      have hd3 := Ws_succ c1 c2 a b c m (n-1)
      match m, n with
      | 0, 0 =>
        simp only [Nat.cast_zero, mul_zero, zero_mul, add_zero, zero_add, Nat.sub_self, Nat.zero_sub] at *
        push_cast at *
        linear_combination hdef + c1*ih1 - c2*hd2
      | 0, n+1 =>
        have B2 := ih 0 (by omega) n
        simp only [Nat.add_sub_cancel, Nat.cast_zero, mul_zero, zero_mul, add_zero, zero_add, Nat.sub_self, Nat.zero_sub] at *
        push_cast at *
        linear_combination hdef + c1*ih1 - c2*hd2 - c*((n:R)+1)*hd3 + b*((n:R)+1)*B2
      | m+1, 0 =>
        have B1 := Ws_succ c1 c2 a b c m 0
        simp only [Nat.add_sub_cancel, Nat.cast_zero, mul_zero, zero_mul, add_zero, zero_add, Nat.sub_self, Nat.zero_sub] at *
        push_cast at *
        linear_combination hdef + c1*ih1 + a*((m:R)+1)*ih2 - c2*hd2 - b*((m:R)+1)*B1
      | m+1, n+1 =>
        have B1 := Ws_succ c1 c2 a b c m (n+1)
        have B2 := ih (m+1) (by omega) n
        simp only [Nat.add_sub_cancel] at *
        push_cast at *
        linear_combination hdef + c1*ih1 + a*((m:R)+1)*ih2 - c2*hd2 - c*((n:R)+1)*hd3
          - b*((m:R)+1)*B1 + b*((n:R)+1)*B2

/-- both RDK recurrences hold: the first by definition, the second is the consistency theorem -/
theorem Ws_rdk2 (c1 c2 a b c : R) : RDK2 c1 c2 a b c (Ws c1 c2 a b c) where
  a := fun n m => by rw [Ws_succ]
  c := fun n m => by rw [Ws_consistent]

/-- with the second power 0 this is the 1-D factor `S2` -/
theorem Ws_zero_right (c1 c2 a b c PB : R) (n : ℕ) : Ws c1 c2 a b c n 0 = S2 a c1 PB n 0 := by
  induction n using Nat.strong_induction_on with
  | _ n ih =>
    match n with
    | 0 => rw [Ws, S2_zero]
    | n+1 =>
      rw [Ws_succ, S2_succ_i, ih n (by omega), ih (n-1) (by omega)]
      simp only [Nat.cast_zero, mul_zero, zero_mul, add_zero]
      ring

end Shifted

section ETSpec
variable {K : Type} [Field K] [CharZero K]

/-- 1-D Rys factor of `[a 0|c 0]` on one axis (`n`: power on centre A, `m`: power on centre C) -/
noncomputable def rysET (p q w w' PA QC PQ : K) (n m : ℕ) : K[X] :=
  Ws (C PA - X * C (w * PQ)) (C QC + X * C (w' * PQ)) (C (1/(2*p)) * (1 - C w * X))
    (C (1/(2*(p+q))) * X) (C (1/(2*q)) * (1 - C w' * X)) n m

omit [CharZero K] in
theorem rysET_rdk2 (p q w w' PA QC PQ : K) :
    RDK2 (C PA - X * C (w * PQ)) (C QC + X * C (w' * PQ)) (C (1/(2*p)) * (1 - C w * X))
      (C (1/(2*(p+q))) * X) (C (1/(2*q)) * (1 - C w' * X)) (rysET p q w w' PA QC PQ) :=
  Ws_rdk2 _ _ _ _ _

omit [CharZero K] in
theorem rysET_zero_right (p q w w' PA QC PQ : K) (n : ℕ) :
    rysET p q w w' PA QC PQ n 0 = rys2 p w PA (w * PQ) n :=
  Ws_zero_right _ _ _ _ _ 0 n

/-- **Specification** of the electron-transferred integral `[a 0|c 0]^{(m)}` without prefactor -/
noncomputable def Espec (F : ℕ → K) (p q w w' : K) (PA QC PQ : ℕ → K) (m : ℕ)
    (a c : ℕ × ℕ × ℕ) : K :=
  boysF F m (rysET p q w w' (PA 0) (QC 0) (PQ 0) a.1 c.1
    * rysET p q w w' (PA 1) (QC 1) (PQ 1) a.2.1 c.2.1
    * rysET p q w w' (PA 2) (QC 2) (PQ 2) a.2.2 c.2.2)

omit [CharZero K] in
/-- at `c = 0` the electron-transfer specification is the vertical one -/
theorem Espec_c0 (F : ℕ → K) (p q w w' : K) (PA QC PQ : ℕ → K) (m : ℕ) (a : ℕ × ℕ × ℕ) :
    Espec F p q w w' PA QC PQ m a (0,0,0) = Vspec2 F p w PA (fun u => w * PQ u) m a := by
  simp only [Espec, Vspec2, rysET_zero_right]

/-- the three electron-transfer relations for a family `E a c` -/
structure ETRel (f1 : ℕ → K) (f2 h2 : K) (E : ℕ × ℕ × ℕ → ℕ × ℕ × ℕ → K) : Prop where
  x : ∀ ax ay az cx cy cz, E (ax, ay, az) (cx+1, cy, cz)
        = f1 0 * E (ax, ay, az) (cx, cy, cz) + (ax:K) * h2 * E (ax-1, ay, az) (cx, cy, cz)
          + (cx:K) * h2 * E (ax, ay, az) (cx-1, cy, cz) - f2 * E (ax+1, ay, az) (cx, cy, cz)
  y : ∀ ax ay az cx cy cz, E (ax, ay, az) (cx, cy+1, cz)
        = f1 1 * E (ax, ay, az) (cx, cy, cz) + (ay:K) * h2 * E (ax, ay-1, az) (cx, cy, cz)
          + (cy:K) * h2 * E (ax, ay, az) (cx, cy-1, cz) - f2 * E (ax, ay+1, az) (cx, cy, cz)
  z : ∀ ax ay az cx cy cz, E (ax, ay, az) (cx, cy, cz+1)
        = f1 2 * E (ax, ay, az) (cx, cy, cz) + (az:K) * h2 * E (ax, ay, az-1) (cx, cy, cz)
          + (cz:K) * h2 * E (ax, ay, az) (cx, cy, cz-1) - f2 * E (ax, ay, az+1) (cx, cy, cz)

/-- `pref * Espec` (at any order `m`) satisfies the electron-transfer relations with the
coefficients that `eriGeneral` passes to `etransf` -/
theorem etRel_Espec (F : ℕ → K) (p q w w' pref : K) (PA QC PQ : ℕ → K)
    (hp : p ≠ 0) (hq : q ≠ 0) (hpq : p + q ≠ 0) (hw : w * (p + q) = q) (hw' : w' * (p + q) = p)
    (m : ℕ) :
    ETRel (fun u => QC u + p / q * PA u) (p / q) (1/(2*q))
      (fun a c => pref * Espec F p q w w' PA QC PQ m a c) where
  x := by
    intro ax ay az cx cy cz
    have e : ∀ r u v : K[X], r * u * v = r * (u * v) := mul_assoc
    simp only [Espec, e]
    rw [etransfer_of_rdk p q w w' (PA 0) (QC 0) (PQ 0) hp hq hpq hw hw' _
      (rysET_rdk2 p q w w' (PA 0) (QC 0) (PQ 0)) (boysF F m) _ ax cx]
    ring
  y := by
    intro ax ay az cx cy cz
    have e : ∀ u r v : K[X], u * r * v = r * (u * v) := by intros; ring
    simp only [Espec, e]
    rw [etransfer_of_rdk p q w w' (PA 1) (QC 1) (PQ 1) hp hq hpq hw hw' _
      (rysET_rdk2 p q w w' (PA 1) (QC 1) (PQ 1)) (boysF F m) _ ay cy]
    ring
  z := by
    intro ax ay az cx cy cz
    have e : ∀ u r v : K[X], u * r * v = v * (u * r) := by intros; ring
    simp only [Espec, e]
    rw [etransfer_of_rdk p q w w' (PA 2) (QC 2) (PQ 2) hp hq hpq hw hw' _
      (rysET_rdk2 p q w w' (PA 2) (QC 2) (PQ 2)) (boysF F m) _ az cz]
    ring

end ETSpec

section ETTable
variable {K : Type} [Field K]

theorem get2_tab {α : Type} (n : ℕ) (f : ℕ → Tab α) (i j : ℕ) :
    (tab n f).get2 i j = (f i).get j := by simp [Tab.get2]

theorem get3_tab {α : Type} (n : ℕ) (f : ℕ → Tab (Tab α)) (i j k : ℕ) :
    (tab n f).get3 i j k = (f i).get2 j k := by simp [Tab.get3]

/-- x pass of `etransf` -/
def etX (f1 : ℕ → K) (f2 h2 : K) (mMax lcd : ℕ) (v0 : Tab3 K) : Tab (Tab3 K) :=
  rows2 (lcd + 1) v0 (tab 0 fun _ => tab 0 fun _ => tab 0 fun _ => Num.nat 0) fun c cur prev =>
    tab (mMax - (c + 1)) fun ax => tab (mMax - (c + 1) - ax) fun ay =>
      tab (mMax - (c + 1) - ax - ay) fun az =>
        etStep (f1 0) f2 h2 mMax c ax (cur.get3 ax ay az) (cur.get3 (ax-1) ay az)
          (cur.get3 (ax+1) ay az) (prev.get3 ax ay az)

/-- y pass of `etransf` -/
def etY (f1 : ℕ → K) (f2 h2 : K) (mMax lcd : ℕ) (v0 : Tab3 K) : Tab (Tab (Tab3 K)) :=
  rows2 (lcd + 1) (etX f1 f2 h2 mMax lcd v0)
    (tab 0 fun _ => tab 0 fun _ => tab 0 fun _ => tab 0 fun _ => Num.nat 0) fun c cur prev =>
      tab (lcd + 1 - (c + 1)) fun cx =>
        tab (mMax - (c + 1) - cx) fun ax => tab (mMax - (c + 1) - cx - ax) fun ay =>
          tab (mMax - (c + 1) - cx - ax - ay) fun az =>
            etStep (f1 1) f2 h2 mMax c ay ((cur.get cx).get3 ax ay az)
              ((cur.get cx).get3 ax (ay-1) az) ((cur.get cx).get3 ax (ay+1) az)
              ((prev.get cx).get3 ax ay az)

theorem etransf_eq (f1 : ℕ → K) (f2 h2 : K) (mMax lcd : ℕ) (v0 : Tab3 K) :
    etransf f1 f2 h2 mMax lcd v0 =
      rows2 (lcd + 1) (etY f1 f2 h2 mMax lcd v0)
        (tab 0 fun _ => tab 0 fun _ => tab 0 fun _ => tab 0 fun _ => tab 0 fun _ => Num.nat 0)
        fun c cur prev =>
          tab (lcd + 1 - (c + 1)) fun cy => tab (lcd + 1 - (c + 1) - cy) fun cx =>
            tab (mMax - (c + 1) - cy - cx) fun ax => tab (mMax - (c + 1) - cy - cx - ax) fun ay =>
              tab (mMax - (c + 1) - cy - cx - ax - ay) fun az =>
                etStep (f1 2) f2 h2 mMax c az ((cur.get2 cy cx).get3 ax ay az)
                  ((cur.get2 cy cx).get3 ax ay (az-1)) ((cur.get2 cy cx).get3 ax ay (az+1))
                  ((prev.get2 cy cx).get3 ax ay az) := rfl

variable {f1 : ℕ → K} {f2 h2 : K} {mMax : ℕ} {v0 : Tab3 K} {E : ℕ × ℕ × ℕ → ℕ × ℕ × ℕ → K}

theorem etX_get (hE : ETRel f1 f2 h2 E)
    (h00 : ∀ ax ay az, ax + ay + az < mMax → v0.get3 ax ay az = E (ax, ay, az) (0,0,0)) (lcd : ℕ) :
    ∀ cx ax ay az, ax + ay + az + cx < mMax →
      ((etX f1 f2 h2 mMax lcd v0).get cx).get3 ax ay az = E (ax, ay, az) (cx, 0, 0) := by
  intro cx
  unfold etX
  rw [rows2_get]
  refine rec2_ind _ _ _
    (fun c (t : Tab3 K) => ∀ ax ay az, ax + ay + az + c < mMax →
      t.get3 ax ay az = E (ax, ay, az) (c, 0, 0)) ?_ ?_ cx
  · intro ax ay az hm; exact h00 ax ay az (by omega)
  · intro c cur prev hc hp ax ay az hm
    have hg : ax + 1 < mMax := by omega
    simp only [get3_tab, get2_tab, tab_get, etStep, if_pos hg, num_nat]
    rw [hc ax ay az (by omega), hc (ax-1) ay az (by omega), hc (ax+1) ay az (by omega), hE.x]
    rcases Nat.eq_zero_or_pos c with rfl | hcp
    · simp
    · rw [hp hcp ax ay az (by omega)]

theorem etY_get (hE : ETRel f1 f2 h2 E)
    (h00 : ∀ ax ay az, ax + ay + az < mMax → v0.get3 ax ay az = E (ax, ay, az) (0,0,0)) (lcd : ℕ) :
    ∀ cy cx ax ay az, ax + ay + az + cx + cy < mMax →
      (((etY f1 f2 h2 mMax lcd v0).get cy).get cx).get3 ax ay az = E (ax, ay, az) (cx, cy, 0) := by
  intro cy
  unfold etY
  rw [rows2_get]
  refine rec2_ind _ _ _
    (fun c (t : Tab (Tab3 K)) => ∀ cx ax ay az, ax + ay + az + cx + c < mMax →
      (t.get cx).get3 ax ay az = E (ax, ay, az) (cx, c, 0)) ?_ ?_ cy
  · intro cx ax ay az hm; exact etX_get hE h00 lcd cx ax ay az (by omega)
  · intro c cur prev hc hp cx ax ay az hm
    have hg : ay + 1 < mMax := by omega
    simp only [get3_tab, get2_tab, tab_get, etStep, if_pos hg, num_nat]
    rw [hc cx ax ay az (by omega), hc cx ax (ay-1) az (by omega), hc cx ax (ay+1) az (by omega),
      hE.y]
    rcases Nat.eq_zero_or_pos c with rfl | hcp
    · simp
    · rw [hp hcp cx ax ay az (by omega)]

/-- **Abstract electron-transfer table theorem.**  If `v0[ax][ay][az]` agrees with `E a 0` for
`|a| < mMax` and `E` satisfies the three electron-transfer relations, then
`etransf[cz][cy][cx][ax][ay][az] = E a c` wherever `|a| + |c| < mMax` (the materialisation bound
`lcd` plays no role).  Outside that region the Python array holds unwritten zeros / values computed
from them and the theorem says nothing. -/
theorem etransf_get (hE : ETRel f1 f2 h2 E)
    (h00 : ∀ ax ay az, ax + ay + az < mMax → v0.get3 ax ay az = E (ax, ay, az) (0,0,0)) (lcd : ℕ) :
    ∀ cz cy cx ax ay az, ax + ay + az + cx + cy + cz < mMax →
      ((etransf f1 f2 h2 mMax lcd v0).get3 cz cy cx).get3 ax ay az
        = E (ax, ay, az) (cx, cy, cz) := by
  intro cz
  change ∀ cy cx ax ay az, _ →
    (((etransf f1 f2 h2 mMax lcd v0).get cz).get2 cy cx).get3 ax ay az = _
  rw [etransf_eq, rows2_get]
  refine rec2_ind _ _ _
    (fun c (t : Tab (Tab (Tab3 K))) => ∀ cy cx ax ay az, ax + ay + az + cx + cy + c < mMax →
      (t.get2 cy cx).get3 ax ay az = E (ax, ay, az) (cx, cy, c)) ?_ ?_ cz
  · intro cy cx ax ay az hm; exact etY_get hE h00 lcd cy cx ax ay az (by omega)
  · intro c cur prev hc hp cy cx ax ay az hm
    have hg : az + 1 < mMax := by omega
    simp only [get3_tab, get2_tab, tab_get, etStep, if_pos hg, num_nat]
    rw [hc cy cx ax ay az (by omega), hc cy cx ax ay (az-1) (by omega),
      hc cy cx ax ay (az+1) (by omega), hE.z]
    rcases Nat.eq_zero_or_pos c with rfl | hcp
    · simp
    · rw [hp hcp cy cx ax ay az (by omega)]

end ETTable

section ETMain
variable {K : Type} [Field K] [CharZero K]

/-- **Primitive-level theorem of `_compute_two_elec_integrals`** (vertical recursion followed by
the electron-transfer recursion, as chained in `eriGeneral`): with `base m = pref * F m`,
`w = ρ/p = q/(p+q)`, `w' = ρ/q = p/(p+q)`, `WQ = w·(P-Q)`, the table
`etransf[cz][cy][cx][ax][ay][az]` built from `v0[ax][ay][az] = vert2[az][ay][ax][0]` equals
`pref` times the Rys-form value of `[a 0|c 0]^{(0)}` wherever `|a| + |c| < mMax`. -/
theorem etransf_vert2_eq_Espec (F : ℕ → K) (p q w w' pref : K) (PA QC PQ : ℕ → K)
    (hp : p ≠ 0) (hq : q ≠ 0) (hpq : p + q ≠ 0) (hw : w * (p + q) = q) (hw' : w' * (p + q) = p)
    (mMax lcd : ℕ) (base : ℕ → K) (hbase : ∀ m, m < mMax → base m = pref * F m)
    (v0 : Tab3 K)
    (hv0 : ∀ ax ay az, ax + ay + az < mMax → v0.get3 ax ay az
      = (vert2 PA (fun u => w * PQ u) (Num.nat 1 / (Num.nat 2 * p)) w mMax base).get4 az ay ax 0)
    (cz cy cx ax ay az : ℕ) (hm : ax + ay + az + cx + cy + cz < mMax) :
    ((etransf (fun u => QC u + p / q * PA u) (p / q) (Num.nat 1 / (Num.nat 2 * q)) mMax lcd
        v0).get3 cz cy cx).get3 ax ay az
      = pref * Espec F p q w w' PA QC PQ 0 (ax, ay, az) (cx, cy, cz) := by
  have hrel := etRel_Espec F p q w w' pref PA QC PQ hp hq hpq hw hw' 0
  simp only [num_nat, Nat.cast_one, Nat.cast_ofNat] at hv0 ⊢
  refine etransf_get hrel ?_ lcd cz cy cx ax ay az hm
  intro ax ay az h
  rw [hv0 ax ay az h, vert2_eq_Vspec2 F p w pref PA _ mMax base hbase az ay ax 0 (by omega),
    Espec_c0]

end ETMain


end GB
