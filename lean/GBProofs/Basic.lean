import GBModel
import Mathlib.Algebra.Field.Defs
import Mathlib.Algebra.BigOperators.Group.List.Basic
import Mathlib.Algebra.BigOperators.Group.Finset.Basic
import Mathlib.Algebra.BigOperators.Intervals
import Mathlib.Tactic.Ring
import Mathlib.Tactic.FieldSimp

/-!
# Bridge between the operations-only model class and Mathlib's algebraic hierarchy

Every field is a `Num`; with this (reducible) instance the model's definitions
unfold to ordinary field expressions and `ring` / `field_simp` apply.
-/

@[reducible] instance fieldNum {K : Type} [Field K] : Num K := { nat := fun n => (n : K) }

namespace GB
variable {K : Type} [Field K]

@[simp] theorem num_nat (n : ℕ) : (Num.nat n : K) = (n : K) := rfl

theorem sumL_eq_sum (l : List K) : sumL l = l.sum := by
  induction l with
  | nil => simp [sumL]
  | cons x xs ih => simp [sumL, ih]

theorem sumN_eq_sum (n : ℕ) (f : ℕ → K) : sumN n f = ∑ i ∈ Finset.range n, f i := by
  unfold sumN
  rw [sumL_eq_sum]
  induction n with
  | zero => simp
  | succ n ih => rw [List.range_succ, List.map_append, List.sum_append, ih, Finset.sum_range_succ]; simp

theorem powN_eq_pow (x : K) (n : ℕ) : powN x n = x ^ n := by
  induction n with
  | zero => simp [powN]
  | succ n ih => simp [powN, ih, pow_succ]

end GB
