import GBProofs.FormsProofs
import GBProofs.PointChargeBlock
import GBProofs.Block3D
import Mathlib.Analysis.Calculus.FDeriv.Symmetric
import Mathlib.Analysis.Calculus.ContDiff.Basic
import Mathlib.Analysis.Calculus.ContDiff.Operations
import Mathlib.Analysis.Calculus.FDeriv.Mul
import Mathlib.Analysis.Calculus.FDeriv.Add
import Mathlib.Analysis.Calculus.IteratedDeriv.Lemmas
import Mathlib.Analysis.InnerProductSpace.Calculus
import Mathlib.Analysis.InnerProductSpace.Laplacian
import Mathlib.Analysis.Calculus.FDeriv.CompCLM
import Mathlib.Analysis.SpecialFunctions.ExpDeriv

/-!
# The instance of the abstract set-up of `FormsProofs.lean`: smooth functions on `ℝ³`

* §1 `Smooth3`: the `ℝ`-subalgebra of `E3 → ℝ` (`E3 = EuclideanSpace ℝ (Fin 3)`) of `C^∞` functions
  (`ContDiff ℝ ∞`, i.e. `((⊤ : ℕ∞) : WithTop ℕ∞)`; in this Mathlib `ContDiff ℝ ⊤` would mean analytic);
  `pd i : Derivation ℝ Smooth3 Smooth3`, `(pd i f) x = fderiv ℝ f x (e_i)`; `pd_comm : CommD pd`.
* §2 pointwise reading of `gradient_eq`, `hessian_eq`, `laplacian_eq`, `derivDensity_eq`, `stress_doc`,
  `force_eq_neg_div_stress`, `ehrenfest_hessian_eq_jacobian` for `pd`: the forms evaluate to genuine
  (iterated) partial derivatives of the genuine density `ρ(x) = Σ_ab γ_ab φ_a(x) φ_b(x)`.
* §3 the model's contracted shell functions `shellFnE` are elements of `Smooth3`, and every mixed
  partial derivative of them is the product of per-axis values computed by the evaluation model.
-/

open Finset
open scoped ContDiff

namespace GB

noncomputable section

/-! ## 1. The algebra of smooth functions and its three partial derivatives -/

/-- the `ℝ`-algebra of `C^∞` functions on `E3 = EuclideanSpace ℝ (Fin 3)` -/
def Smooth3 : Subalgebra ℝ (E3 → ℝ) where
  carrier := {f | ContDiff ℝ ∞ f}
  mul_mem' := fun {f g} (hf : ContDiff ℝ ∞ f) (hg : ContDiff ℝ ∞ g) => hf.mul hg
  add_mem' := fun {f g} (hf : ContDiff ℝ ∞ f) (hg : ContDiff ℝ ∞ g) => hf.add hg
  algebraMap_mem' := fun c => (contDiff_const : ContDiff ℝ ∞ (fun _ : E3 => c))

theorem mem_Smooth3 {f : E3 → ℝ} : f ∈ Smooth3 ↔ ContDiff ℝ ∞ f := Iff.rfl

/-- the `i`-th standard basis vector of `E3` -/
def ei (i : Fin 3) : E3 := EuclideanSpace.single i 1

/-- the `i`-th partial derivative of a function on `E3` -/
def pdFun (i : Fin 3) (f : E3 → ℝ) : E3 → ℝ := fun x => fderiv ℝ f x (ei i)

theorem contDiff_pdFun {f : E3 → ℝ} (hf : ContDiff ℝ ∞ f) (i : Fin 3) :
    ContDiff ℝ ∞ (pdFun i f) :=
  (hf.fderiv_right (m := ∞) (by simp)).clm_apply contDiff_const

theorem smooth_contDiff (f : Smooth3) : ContDiff ℝ ∞ (f.1 : E3 → ℝ) := mem_Smooth3.1 f.2

theorem smooth_differentiable (f : Smooth3) : Differentiable ℝ (f.1 : E3 → ℝ) :=
  (smooth_contDiff f).differentiable (by simp)

/-- `∂_i` as a linear map on `Smooth3` -/
def pdLin (i : Fin 3) : Smooth3 →ₗ[ℝ] Smooth3 where
  toFun f := ⟨pdFun i f.1, contDiff_pdFun (smooth_contDiff f) i⟩
  map_add' f g := by
    apply Subtype.ext
    funext x
    show fderiv ℝ (f.1 + g.1) x (ei i) = fderiv ℝ f.1 x (ei i) + fderiv ℝ g.1 x (ei i)
    rw [fderiv_add (smooth_differentiable f x) (smooth_differentiable g x)]
    rfl
  map_smul' c f := by
    apply Subtype.ext
    funext x
    show fderiv ℝ (c • f.1) x (ei i) = c • fderiv ℝ f.1 x (ei i)
    rw [fderiv_const_smul (smooth_differentiable f x)]
    rfl

/-- the three partial derivatives as `ℝ`-derivations of `Smooth3` -/
def pd (i : Fin 3) : Derivation ℝ Smooth3 Smooth3 :=
  Derivation.mk' (pdLin i) (by
    intro f g
    apply Subtype.ext
    funext x
    show fderiv ℝ (f.1 * g.1) x (ei i)
      = f.1 x * fderiv ℝ g.1 x (ei i) + g.1 x * fderiv ℝ f.1 x (ei i)
    rw [fderiv_mul (smooth_differentiable f x) (smooth_differentiable g x)]
    rfl)

@[simp] theorem pd_apply (i : Fin 3) (f : Smooth3) (x : E3) :
    (pd i f).1 x = fderiv ℝ f.1 x (ei i) := rfl

theorem pd_coe (i : Fin 3) (f : Smooth3) : (pd i f).1 = pdFun i f.1 := rfl

/-- second partial derivatives are the second Fréchet derivative -/
theorem pd_pd_apply (i j : Fin 3) (f : Smooth3) (x : E3) :
    (pd i (pd j f)).1 x = fderiv ℝ (fderiv ℝ f.1) x (ei i) (ei j) := by
  have hd : DifferentiableAt ℝ (fderiv ℝ f.1) x :=
    ((smooth_contDiff f).fderiv_right (m := ∞) (by simp)).differentiable (by simp) x
  show fderiv ℝ (fun y => fderiv ℝ f.1 y (ei j)) x (ei i) = _
  rw [fderiv_clm_apply hd (differentiableAt_const _)]
  simp

/-- **the partial derivatives of smooth functions commute** -/
theorem pd_comm : CommD pd := by
  intro i j f
  apply Subtype.ext
  funext x
  rw [pd_pd_apply, pd_pd_apply]
  have h : IsSymmSndFDerivAt ℝ f.1 x :=
    (smooth_contDiff f).contDiffAt.isSymmSndFDerivAt
      (by simp only [minSmoothness_of_isRCLikeNormedField]; exact WithTop.coe_le_coe.2 (le_top : (2 : ℕ∞) ≤ ⊤))
  exact h.eq _ _


/-! ## 2. Pointwise reading of the abstract theorems -/

/-- evaluation at a point, an `ℝ`-algebra homomorphism -/
def evalAt (x : E3) : Smooth3 →ₐ[ℝ] ℝ :=
  (Pi.evalAlgHom ℝ (fun _ : E3 => ℝ) x).comp Smooth3.val

theorem evalAt_apply (x : E3) (f : Smooth3) : evalAt x f = f.1 x := rfl

/-- iterated partial derivatives `∂_x^{p_x} ∂_y^{p_y} ∂_z^{p_z}` of a function on `E3` -/
def dpowFun (p : Comp) (f : E3 → ℝ) : E3 → ℝ :=
  (pdFun 0)^[p.1] ((pdFun 1)^[p.2.1] ((pdFun 2)^[p.2.2] f))

theorem iterate_pd_coe (i : Fin 3) (n : ℕ) (f : Smooth3) :
    (((pd i)^[n] f : Smooth3) : E3 → ℝ) = (pdFun i)^[n] f.1 := by
  induction n with
  | zero => rfl
  | succ n ih => rw [Function.iterate_succ_apply', Function.iterate_succ_apply', pd_coe, ih]

/-- the abstract `dpow` of the instance is the iterated partial derivative of the function -/
theorem dpow_coe (p : Comp) (f : Smooth3) : (dpow pd p f).1 = dpowFun p f.1 := by
  unfold dpow dpowFun
  rw [iterate_pd_coe, iterate_pd_coe, iterate_pd_coe]

@[simp] theorem dpowFun_zero (f : E3 → ℝ) : dpowFun 0 f = f := rfl

theorem dpowFun_e (i : Fin 3) (f : E3 → ℝ) : dpowFun (e i) f = pdFun i f := by
  fin_cases i <;> rfl


/-! ### `dpowFun` in terms of Mathlib's iterated Fréchet derivative -/

/-- successive partial derivatives along the axes of a list (head = outermost) -/
def pdList (l : List (Fin 3)) (f : E3 → ℝ) : E3 → ℝ := l.foldr pdFun f

theorem pdList_eq_iteratedFDeriv {f : E3 → ℝ} (hf : ContDiff ℝ ∞ f) :
    ∀ (l : List (Fin 3)) (x : E3),
      pdList l f x = iteratedFDeriv ℝ l.length f x (fun k => ei (l.get k))
  | [], x => by simp [pdList]
  | i :: l, x => by
    have hfun : pdList l f = fun y => iteratedFDeriv ℝ l.length f y (fun k => ei (l.get k)) :=
      funext (pdList_eq_iteratedFDeriv hf l)
    have hd : DifferentiableAt ℝ (fun y => iteratedFDeriv ℝ l.length f y) x :=
      hf.differentiable_iteratedFDeriv (WithTop.coe_lt_coe.2 (ENat.natCast_lt_top l.length)) x
    show pdFun i (pdList l f) x = _
    rw [hfun]
    unfold pdFun
    rw [fderiv_continuousMultilinear_apply_const hd]
    rfl

/-- the list of axes of an order triple: `p_x` times `x`, then `p_y` times `y`, then `p_z` times `z` -/
def axesList (p : Comp) : List (Fin 3) :=
  List.replicate p.1 0 ++ (List.replicate p.2.1 1 ++ List.replicate p.2.2 2)

theorem length_axesList (p : Comp) : (axesList p).length = p.1 + (p.2.1 + p.2.2) := by
  simp [axesList]

theorem foldr_pdFun_replicate (i : Fin 3) (n : ℕ) (f : E3 → ℝ) :
    (List.replicate n i).foldr pdFun f = (pdFun i)^[n] f := by
  induction n with
  | zero => rfl
  | succ n ih => rw [List.replicate_succ, List.foldr_cons, ih, Function.iterate_succ_apply']

theorem dpowFun_eq_pdList (p : Comp) (f : E3 → ℝ) : dpowFun p f = pdList (axesList p) f := by
  unfold dpowFun pdList axesList
  rw [List.foldr_append, List.foldr_append, foldr_pdFun_replicate, foldr_pdFun_replicate,
    foldr_pdFun_replicate]

/-- **`dpowFun p f` is the `|p|`-th Fréchet derivative of `f` applied to `p_x` copies of `e_x`,
`p_y` copies of `e_y`, `p_z` copies of `e_z`** -/
theorem dpowFun_eq_iteratedFDeriv {f : E3 → ℝ} (hf : ContDiff ℝ ∞ f) (p : Comp) (x : E3) :
    dpowFun p f x
      = iteratedFDeriv ℝ (axesList p).length f x (fun k => ei ((axesList p).get k)) := by
  rw [dpowFun_eq_pdList, pdList_eq_iteratedFDeriv hf]

section Pointwise

variable {ι : Type*} [Fintype ι] (φ : ι → Smooth3) (γ : ι → ι → ℝ)

/-- the function `Σ_ab γ_ab ∂^p φ_a ∂^q φ_b` -/
def DFun (p q : Comp) : E3 → ℝ :=
  fun x => ∑ a, ∑ b, γ a b * dpowFun p (φ a).1 x * dpowFun q (φ b).1 x

/-- the electron density `ρ(x) = Σ_ab γ_ab φ_a(x) φ_b(x)` as a function on `E3` -/
def rhoFun : E3 → ℝ := fun x => ∑ a, ∑ b, γ a b * (φ a).1 x * (φ b).1 x

theorem Dsym_apply (p q : Comp) (x : E3) :
    (Dsym pd φ γ p q).1 x = ∑ a, ∑ b, γ a b * dpowFun p (φ a).1 x * dpowFun q (φ b).1 x := by
  rw [← evalAt_apply, Dsym]
  simp only [map_sum, map_smul, map_mul, evalAt_apply, smul_eq_mul, mul_assoc, dpow_coe]

theorem Dsym_coe (p q : Comp) : (Dsym pd φ γ p q).1 = DFun φ γ p q :=
  funext fun x => Dsym_apply φ γ p q x

/-- the abstract density of the instance is the genuine density
(`rho = Dsym 0 0 = Σ_a Σ_b γ_ab • (φ_a * φ_b)`) -/
theorem rho_apply (x : E3) :
    (rho pd φ γ).1 x = ∑ a, ∑ b, γ a b * (φ a).1 x * (φ b).1 x := by
  rw [rho, Dsym_apply]; rfl

theorem rho_coe : (rho pd φ γ).1 = rhoFun φ γ := funext fun x => rho_apply φ γ x

variable {φ γ}

/-- **`evaluate_density_gradient`** returns the partial derivative of the density -/
theorem gradient_pointwise (hγ : SymmG γ) (i : Fin 3) (x : E3) :
    (Form.evalA pd φ γ (gradientForm i)).1 x
      = fderiv ℝ (fun y => ∑ a, ∑ b, γ a b * (φ a).1 y * (φ b).1 y) x (ei i) := by
  rw [gradient_eq pd_comm hγ i, pd_apply, rho_coe]; rfl

/-- **`evaluate_density_hessian`** returns the second partial derivatives of the density -/
theorem hessian_pointwise (hγ : SymmG γ) (r c : Fin 3) (x : E3) :
    (Form.evalA pd φ γ (hessianForm r c)).1 x
      = fderiv ℝ (fun y => fderiv ℝ
          (fun z => ∑ a, ∑ b, γ a b * (φ a).1 z * (φ b).1 z) y (ei c)) x (ei r) := by
  rw [hessian_eq pd_comm hγ r c, pd_apply, pd_coe, rho_coe]; rfl

/-- the same, as the second Fréchet derivative -/
theorem hessian_pointwise' (hγ : SymmG γ) (r c : Fin 3) (x : E3) :
    (Form.evalA pd φ γ (hessianForm r c)).1 x
      = fderiv ℝ (fderiv ℝ (rhoFun φ γ)) x (ei r) (ei c) := by
  rw [hessian_eq pd_comm hγ r c, pd_pd_apply, rho_coe]

/-- **`evaluate_density_laplacian`** returns the sum of the three second partial derivatives -/
theorem laplacian_pointwise (hγ : SymmG γ) (x : E3) :
    (Form.evalA pd φ γ laplacianForm).1 x
      = ∑ i : Fin 3, fderiv ℝ (fun y => fderiv ℝ
          (fun z => ∑ a, ∑ b, γ a b * (φ a).1 z * (φ b).1 z) y (ei i)) x (ei i) := by
  rw [laplacian_eq pd_comm hγ, lap, ← evalAt_apply, map_sum]
  refine Finset.sum_congr rfl fun i _ => ?_
  rw [evalAt_apply, pd_apply, pd_coe, rho_coe]; rfl

open Laplacian in
/-- the same with Mathlib's Laplacian `Δ` of the density function -/
theorem laplacian_pointwise' (hγ : SymmG γ) (x : E3) :
    (Form.evalA pd φ γ laplacianForm).1 x = (Δ (rhoFun φ γ)) x := by
  rw [laplacian_eq pd_comm hγ, lap, ← evalAt_apply, map_sum,
    InnerProductSpace.laplacian_eq_iteratedFDeriv_orthonormalBasis _
      (EuclideanSpace.basisFun (Fin 3) ℝ)]
  refine Finset.sum_congr rfl fun i _ => ?_
  rw [evalAt_apply, pd_pd_apply, rho_coe, iteratedFDeriv_two_apply]
  simp [ei]

/-- **`evaluate_deriv_density`** returns the iterated partial derivative `∂^L ρ`, any order -/
theorem derivDensity_pointwise (hγ : SymmG γ) (L : Comp) (x : E3) :
    (Form.evalA pd φ γ (derivDensityForm L)).1 x
      = dpowFun L (fun y => ∑ a, ∑ b, γ a b * (φ a).1 y * (φ b).1 y) x := by
  rw [derivDensity_eq pd_comm hγ L, dpow_coe, rho_coe]; rfl

theorem contDiff_rhoFun : ContDiff ℝ ∞ (rhoFun φ γ) := by
  rw [← rho_coe]; exact smooth_contDiff _

/-- the same with Mathlib's iterated Fréchet derivative of the density function -/
theorem derivDensity_pointwise' (hγ : SymmG γ) (L : Comp) (x : E3) :
    (Form.evalA pd φ γ (derivDensityForm L)).1 x
      = iteratedFDeriv ℝ (axesList L).length (rhoFun φ γ) x
          (fun k => ei ((axesList L).get k)) := by
  rw [derivDensity_eq pd_comm hγ L, dpow_coe, rho_coe,
    dpowFun_eq_iteratedFDeriv contDiff_rhoFun]

/-- the abstract Laplacian of the density, pointwise -/
theorem lap_apply (x : E3) :
    (lap pd φ γ).1 x = ∑ k : Fin 3, pdFun k (pdFun k (rhoFun φ γ)) x := by
  rw [lap, ← evalAt_apply, map_sum]
  refine Finset.sum_congr rfl fun i _ => ?_
  rw [evalAt_apply, pd_coe, pd_coe, rho_coe]

/-- **`evaluate_posdef_kinetic_energy_density`**: `½ Σ_k Σ_ab γ_ab ∂_k φ_a ∂_k φ_b` -/
theorem posdefKE_pointwise (x : E3) :
    (Form.evalA pd φ γ posdefForm).1 x
      = 1 / 2 * ∑ k : Fin 3, ∑ a, ∑ b,
          γ a b * fderiv ℝ (φ a).1 x (ei k) * fderiv ℝ (φ b).1 x (ei k) := by
  rw [posdef_eval, ← evalAt_apply, map_smul, map_sum, smul_eq_mul]
  congr 1
  refine Finset.sum_congr rfl fun k _ => ?_
  rw [evalAt_apply, Dsym_apply]
  simp only [dpowFun_e]
  rfl

/-- **`evaluate_general_kinetic_energy_density`**: `t₊ + α ∇²ρ` -/
theorem generalKE_pointwise (hγ : SymmG γ) (α : ℚ) (x : E3) :
    (Form.evalA pd φ γ (generalKEForm α)).1 x
      = (Form.evalA pd φ γ posdefForm).1 x
        + (α : ℝ) * ∑ k : Fin 3, pdFun k (pdFun k (rhoFun φ γ)) x := by
  rw [generalKE_eq, laplacian_eq pd_comm hγ, ← lap_apply, ← evalAt_apply, map_add, map_smul]
  rfl

/-- **`evaluate_stress_tensor`**: the documented expression, pointwise, for all `α`, `β` -/
theorem stress_pointwise (hγ : SymmG γ) (α β : ℚ) (i j : Fin 3) (x : E3) :
    (Form.evalA pd φ γ (stressForm α β i j)).1 x
      = -(1 / 2 : ℝ) * ((α : ℝ) * (DFun φ γ (e i) (e j) x + DFun φ γ (e j) (e i) x)
          - (1 - (α : ℝ)) * (DFun φ γ (e i + e j) 0 x + DFun φ γ 0 (e i + e j) x))
        - (1 / 2 : ℝ) * ((if i = j then (1 : ℝ) else 0) * (β : ℝ))
            * ∑ k : Fin 3, pdFun k (pdFun k (rhoFun φ γ)) x := by
  rw [stress_doc pd_comm hγ, ← lap_apply, ← Dsym_coe, ← Dsym_coe, ← Dsym_coe, ← Dsym_coe]
  simp only [← evalAt_apply, map_sub, map_add, map_smul, smul_eq_mul, mul_assoc]

/-- **the Ehrenfest force is minus the divergence of the stress tensor**, as functions on `E3` -/
theorem force_pointwise (hγ : SymmG γ) (α β : ℚ) (i : Fin 3) (x : E3) :
    (Form.evalA pd φ γ (forceForm α β i)).1 x
      = -∑ j : Fin 3, fderiv ℝ (Form.evalA pd φ γ (stressForm α β i j)).1 x (ei j) := by
  rw [force_eq_neg_div_stress pd_comm hγ, ← evalAt_apply, map_neg, map_sum]
  rfl

/-- **the Ehrenfest Hessian is the Jacobian of the force**, as functions on `E3` -/
theorem ehrenfestHessian_pointwise (hγ : SymmG γ) (α β : ℚ) (i j : Fin 3) (x : E3) :
    (Form.evalA pd φ γ (ehrenfestHessianRaw α β i j)).1 x
      = fderiv ℝ (Form.evalA pd φ γ (forceForm α β i)).1 x (ei j) := by
  rw [ehrenfest_hessian_eq_jacobian pd_comm hγ]
  rfl

/-- the instantiated statements in `Smooth3` -/
theorem stress_doc_smooth (hγ : SymmG γ) (α β : ℚ) (i j : Fin 3) :
    Form.evalA pd φ γ (stressForm α β i j) =
      -(1 / 2 : ℝ) • ((α : ℝ) • (Dsym pd φ γ (e i) (e j) + Dsym pd φ γ (e j) (e i))
          - (1 - (α : ℝ)) • (Dsym pd φ γ (e i + e j) 0 + Dsym pd φ γ 0 (e i + e j)))
        - (1 / 2 : ℝ) • ((if i = j then (1 : ℝ) else 0) * (β : ℝ)) • lap pd φ γ :=
  stress_doc pd_comm hγ α β i j

theorem force_eq_neg_div_stress_smooth (hγ : SymmG γ) (α β : ℚ) (i : Fin 3) :
    Form.evalA pd φ γ (forceForm α β i)
      = -∑ j : Fin 3, pd j (Form.evalA pd φ γ (stressForm α β i j)) :=
  force_eq_neg_div_stress pd_comm hγ α β i

theorem ehrenfest_hessian_eq_jacobian_smooth (hγ : SymmG γ) (α β : ℚ) (i j : Fin 3) :
    Form.evalA pd φ γ (ehrenfestHessianRaw α β i j)
      = pd j (Form.evalA pd φ γ (forceForm α β i)) :=
  ehrenfest_hessian_eq_jacobian pd_comm hγ α β i j

end Pointwise

/-! ## 3. The model's basis functions are smooth, and their derivatives are what the model computes -/

/-- the `u`-th coordinate as a continuous linear functional -/
def coordL (u : Fin 3) : E3 →L[ℝ] ℝ := EuclideanSpace.proj u

@[simp] theorem coordL_apply (u : Fin 3) (r : E3) : coordL u r = r u := rfl

theorem contDiff_coord (u : Fin 3) : ContDiff ℝ ∞ (fun r : E3 => r u) :=
  (coordL u).contDiff

theorem hasFDerivAt_coord (u : Fin 3) (x : E3) :
    HasFDerivAt (fun r : E3 => r u) (coordL u) x :=
  (coordL u).hasFDerivAt

/-- the product `g₀(x) g₁(y) g₂(z)` of three one-variable functions -/
def prodFn (g0 g1 g2 : ℝ → ℝ) : E3 → ℝ := fun r => g0 (r 0) * g1 (r 1) * g2 (r 2)

theorem contDiff_prodFn {g0 g1 g2 : ℝ → ℝ} (h0 : ContDiff ℝ ∞ g0) (h1 : ContDiff ℝ ∞ g1)
    (h2 : ContDiff ℝ ∞ g2) : ContDiff ℝ ∞ (prodFn g0 g1 g2) :=
  ((h0.comp (contDiff_coord 0)).mul (h1.comp (contDiff_coord 1))).mul (h2.comp (contDiff_coord 2))

theorem hasFDerivAt_coord_comp {g : ℝ → ℝ} (hg : Differentiable ℝ g) (u : Fin 3) (x : E3) :
    HasFDerivAt (fun r : E3 => g (r u))
      (deriv g (x u) • coordL u) x :=
  (hg (x u)).hasDerivAt.comp_hasFDerivAt x (hasFDerivAt_coord u x)

theorem pdFun_prodFn {g0 g1 g2 : ℝ → ℝ} (h0 : Differentiable ℝ g0) (h1 : Differentiable ℝ g1)
    (h2 : Differentiable ℝ g2) (i : Fin 3) (x : E3) :
    pdFun i (prodFn g0 g1 g2) x
      = (if i = 0 then deriv g0 (x 0) else 0) * g1 (x 1) * g2 (x 2)
        + g0 (x 0) * (if i = 1 then deriv g1 (x 1) else 0) * g2 (x 2)
        + g0 (x 0) * g1 (x 1) * (if i = 2 then deriv g2 (x 2) else 0) := by
  have h := ((hasFDerivAt_coord_comp h0 0 x).mul (hasFDerivAt_coord_comp h1 1 x)).mul
    (hasFDerivAt_coord_comp h2 2 x)
  have e : prodFn g0 g1 g2
      = ((fun r : E3 => g0 (r 0)) * fun r : E3 => g1 (r 1)) * fun r : E3 => g2 (r 2) := rfl
  unfold pdFun
  rw [e, h.fderiv]
  simp only [ei, add_apply, smul_apply,
    coordL_apply, PiLp.single_apply, Pi.mul_apply, smul_eq_mul]
  fin_cases i <;> simp <;> ring

theorem pdFun0_prodFn {g0 g1 g2 : ℝ → ℝ} (h0 : Differentiable ℝ g0) (h1 : Differentiable ℝ g1)
    (h2 : Differentiable ℝ g2) : pdFun 0 (prodFn g0 g1 g2) = prodFn (deriv g0) g1 g2 := by
  funext x; rw [pdFun_prodFn h0 h1 h2]; simp [prodFn]

theorem pdFun1_prodFn {g0 g1 g2 : ℝ → ℝ} (h0 : Differentiable ℝ g0) (h1 : Differentiable ℝ g1)
    (h2 : Differentiable ℝ g2) : pdFun 1 (prodFn g0 g1 g2) = prodFn g0 (deriv g1) g2 := by
  funext x; rw [pdFun_prodFn h0 h1 h2]; simp [prodFn]

theorem pdFun2_prodFn {g0 g1 g2 : ℝ → ℝ} (h0 : Differentiable ℝ g0) (h1 : Differentiable ℝ g1)
    (h2 : Differentiable ℝ g2) : pdFun 2 (prodFn g0 g1 g2) = prodFn g0 g1 (deriv g2) := by
  funext x; rw [pdFun_prodFn h0 h1 h2]; simp [prodFn]

theorem smoothDiff {g : ℝ → ℝ} (h : ContDiff ℝ ∞ g) : Differentiable ℝ g :=
  h.differentiable (by simp)

theorem iterate_pd0_prod (n : ℕ) : ∀ (F : Smooth3) (g0 g1 g2 : ℝ → ℝ), ContDiff ℝ ∞ g0 →
    Differentiable ℝ g1 → Differentiable ℝ g2 → F.1 = prodFn g0 g1 g2 →
    (((pd 0)^[n] F : Smooth3) : E3 → ℝ) = prodFn (deriv^[n] g0) g1 g2 := by
  induction n with
  | zero => intro F g0 g1 g2 _ _ _ hF; exact hF
  | succ n ih =>
    intro F g0 g1 g2 h0 h1 h2 hF
    rw [Function.iterate_succ_apply]
    exact ih (pd 0 F) (deriv g0) g1 g2 (contDiff_infty_iff_deriv.1 h0).2 h1 h2
      (by rw [pd_coe, hF, pdFun0_prodFn (smoothDiff h0) h1 h2])

theorem iterate_pd1_prod (n : ℕ) : ∀ (F : Smooth3) (g0 g1 g2 : ℝ → ℝ), Differentiable ℝ g0 →
    ContDiff ℝ ∞ g1 → Differentiable ℝ g2 → F.1 = prodFn g0 g1 g2 →
    (((pd 1)^[n] F : Smooth3) : E3 → ℝ) = prodFn g0 (deriv^[n] g1) g2 := by
  induction n with
  | zero => intro F g0 g1 g2 _ _ _ hF; exact hF
  | succ n ih =>
    intro F g0 g1 g2 h0 h1 h2 hF
    rw [Function.iterate_succ_apply]
    exact ih (pd 1 F) g0 (deriv g1) g2 h0 (contDiff_infty_iff_deriv.1 h1).2 h2
      (by rw [pd_coe, hF, pdFun1_prodFn h0 (smoothDiff h1) h2])

theorem iterate_pd2_prod (n : ℕ) : ∀ (F : Smooth3) (g0 g1 g2 : ℝ → ℝ), Differentiable ℝ g0 →
    Differentiable ℝ g1 → ContDiff ℝ ∞ g2 → F.1 = prodFn g0 g1 g2 →
    (((pd 2)^[n] F : Smooth3) : E3 → ℝ) = prodFn g0 g1 (deriv^[n] g2) := by
  induction n with
  | zero => intro F g0 g1 g2 _ _ _ hF; exact hF
  | succ n ih =>
    intro F g0 g1 g2 h0 h1 h2 hF
    rw [Function.iterate_succ_apply]
    exact ih (pd 2 F) g0 g1 (deriv g2) h0 h1 (contDiff_infty_iff_deriv.1 h2).2
      (by rw [pd_coe, hF, pdFun2_prodFn h0 h1 (smoothDiff h2)])

/-- **mixed partial derivatives of a product function** `g₀(x) g₁(y) g₂(z)`: the product of the
one-variable iterated derivatives -/
theorem dpow_prod (p : Comp) (F : Smooth3) (g0 g1 g2 : ℝ → ℝ) (h0 : ContDiff ℝ ∞ g0)
    (h1 : ContDiff ℝ ∞ g1) (h2 : ContDiff ℝ ∞ g2) (hF : F.1 = prodFn g0 g1 g2) :
    (dpow pd p F).1
      = prodFn (iteratedDeriv p.1 g0) (iteratedDeriv p.2.1 g1) (iteratedDeriv p.2.2 g2) := by
  have e2 := iterate_pd2_prod p.2.2 F g0 g1 g2 (smoothDiff h0) (smoothDiff h1) h2 hF
  have e1 := iterate_pd1_prod p.2.1 _ g0 g1 _ (smoothDiff h0) h1
    (smoothDiff (h2.iterate_deriv p.2.2)) e2
  have e0 := iterate_pd0_prod p.1 _ g0 _ _ h0 (smoothDiff (h1.iterate_deriv p.2.1))
    (smoothDiff (h2.iterate_deriv p.2.2)) e1
  rw [iteratedDeriv_eq_iterate, iteratedDeriv_eq_iterate, iteratedDeriv_eq_iterate]
  exact e0

/-! ### Primitives and contracted shells -/

theorem contDiff_prim1 (α A : ℝ) (n : ℕ) : ContDiff ℝ ∞ (prim1 α A n) := by
  unfold prim1; fun_prop

theorem primFnE_eq_prodFn (α : ℝ) (A : E3) (c : Comp) :
    primFnE α A c = prodFn (prim1 α (A 0) c.1) (prim1 α (A 1) c.2.1) (prim1 α (A 2) c.2.2) := by
  funext r
  have hn : ‖r - A‖ ^ 2 = (r 0 - A 0) ^ 2 + (r 1 - A 1) ^ 2 + (r 2 - A 2) ^ 2 := by
    rw [EuclideanSpace.real_norm_sq_eq]
    simp [Fin.sum_univ_three]
  unfold primFnE prodFn prim1
  rw [hn, exp_neg_mul_add3]
  ring

/-- a Cartesian Gaussian primitive is `C^∞` (for every real exponent `α`) -/
theorem contDiff_primFnE (α : ℝ) (A : E3) (c : Comp) : ContDiff ℝ ∞ (primFnE α A c) := by
  rw [primFnE_eq_prodFn]
  exact contDiff_prodFn (contDiff_prim1 _ _ _) (contDiff_prim1 _ _ _) (contDiff_prim1 _ _ _)

/-- **the model's contracted Cartesian shell functions are `C^∞`** -/
theorem contDiff_shellFnE (s : Shell ℝ) (m c : ℕ) : ContDiff ℝ ∞ (shellFnE s m c) := by
  unfold shellFnE
  exact ContDiff.sum fun k _ => contDiff_const.mul (contDiff_primFnE _ _ _)

/-- a primitive as an element of `Smooth3` -/
def primSmooth (α : ℝ) (A : E3) (c : Comp) : Smooth3 := ⟨primFnE α A c, contDiff_primFnE α A c⟩

/-- contraction `m`, component `c` of the shell `s` as an element of `Smooth3` -/
def shellSmooth (s : Shell ℝ) (m c : ℕ) : Smooth3 := ⟨shellFnE s m c, contDiff_shellFnE s m c⟩

@[simp] theorem shellSmooth_coe (s : Shell ℝ) (m c : ℕ) :
    ((shellSmooth s m c : Smooth3) : E3 → ℝ) = shellFnE s m c := rfl

theorem shellSmooth_eq_sum (s : Shell ℝ) (m c : ℕ) :
    shellSmooth s m c = ∑ k ∈ range s.nprim,
      (s.coef! k m * normPrim (s.exp! k) s.l (s.comp! c))
        • primSmooth (s.exp! k) (toE3 s.ctr) (s.comp! c) := by
  apply Subtype.ext
  funext r
  rw [← evalAt_apply, ← evalAt_apply, map_sum]
  simp only [map_smul, evalAt_apply, smul_eq_mul]
  rfl

/-- mixed partial derivatives of a primitive -/
theorem dpow_primSmooth_coe (α : ℝ) (A : E3) (c p : Comp) :
    (dpow pd p (primSmooth α A c)).1
      = prodFn (iteratedDeriv p.1 (prim1 α (A 0) c.1)) (iteratedDeriv p.2.1 (prim1 α (A 1) c.2.1))
          (iteratedDeriv p.2.2 (prim1 α (A 2) c.2.2)) :=
  dpow_prod p _ _ _ _ (contDiff_prim1 _ _ _) (contDiff_prim1 _ _ _) (contDiff_prim1 _ _ _)
    (primFnE_eq_prodFn α A c)

/-- **every mixed partial derivative `∂^p` of a contracted shell function, evaluated at `r`, is
`shellDerivFn s m c p`**: the sum over primitives of coefficient × norm × the product over the
three axes of `iteratedDeriv p_axis ((x - A_axis)^{c_axis} e^{-α (x - A_axis)²})`. -/
theorem dpow_shellSmooth_apply (s : Shell ℝ) (m c : ℕ) (p : Comp) (r : E3) :
    (dpow pd p (shellSmooth s m c)).1 r = shellDerivFn s m c p (r 0, r 1, r 2) := by
  rw [shellSmooth_eq_sum, dpow_sum_map, ← evalAt_apply, map_sum]
  unfold shellDerivFn
  refine Finset.sum_congr rfl fun k _ => ?_
  rw [dpow_smul_map, map_smul, evalAt_apply, dpow_primSmooth_coe, smul_eq_mul]
  simp [prodFn, primDerivFn]

/-- first order: **the genuine partial derivative `∂_i` of the contracted shell function** is the
model's first-order derivative function -/
theorem pd_shellSmooth_apply (s : Shell ℝ) (m c : ℕ) (i : Fin 3) (r : E3) :
    fderiv ℝ (shellFnE s m c) r (ei i) = shellDerivFn s m c (e i) (r 0, r 1, r 2) := by
  rw [← dpow_shellSmooth_apply, dpow_e pd_comm]
  rfl

/-- the one-variable factor, centred: `d^n/dx^n ((x-A)^a e^{-α(x-A)²})` at `x` is
`d^n/dy^n (y^a e^{-αy²})` at `y = x - A` -/
theorem iteratedDeriv_prim1 (α A : ℝ) (a n : ℕ) (x : ℝ) :
    iteratedDeriv n (prim1 α A a) x
      = iteratedDeriv n (fun y : ℝ => y ^ a * Real.exp (-(α * (y * y)))) (x - A) := by
  have e : prim1 α A a
      = fun z => (fun y : ℝ => y ^ a * Real.exp (-(α * (y * y)))) (z - A) := by
    funext z
    simp only [prim1]
    congr 2
    ring
  rw [e, iteratedDeriv_comp_sub_const n (fun y : ℝ => y ^ a * Real.exp (-(α * (y * y)))) A]

/-- the same statement written out: sum over primitives of coefficient × norm × product over the
axes of the one-variable iterated derivatives of `y ↦ y^{c_axis} e^{-αy²}` at `r_axis - A_axis`
(no hypothesis on the exponents) -/
theorem dpow_shellSmooth_apply' (s : Shell ℝ) (m c : ℕ) (p : Comp) (r : E3) :
    (dpow pd p (shellSmooth s m c)).1 r
      = ∑ k ∈ range s.nprim, s.coef! k m * normPrim (s.exp! k) s.l (s.comp! c)
          * (iteratedDeriv p.1 (fun y : ℝ => y ^ (s.comp! c).1
                * Real.exp (-(s.exp! k * (y * y)))) (r 0 - s.ctr 0)
            * iteratedDeriv p.2.1 (fun y : ℝ => y ^ (s.comp! c).2.1
                * Real.exp (-(s.exp! k * (y * y)))) (r 1 - s.ctr 1)
            * iteratedDeriv p.2.2 (fun y : ℝ => y ^ (s.comp! c).2.2
                * Real.exp (-(s.exp! k * (y * y)))) (r 2 - s.ctr 2)) := by
  rw [dpow_shellSmooth_apply]
  unfold shellDerivFn primDerivFn
  simp only [iteratedDeriv_prim1]

/-- **the product of per-axis values that the evaluation model computes** (`axisGeneral`,
non-negative exponents) is the mixed partial derivative of the shell function -/
theorem dpow_shellSmooth_eq_axisGeneral (s : Shell ℝ) (m c : ℕ) (p : Comp) (r : E3)
    (hs : ∀ k < s.nprim, 0 ≤ s.exp! k) :
    (dpow pd p (shellSmooth s m c)).1 r
      = ∑ k ∈ range s.nprim, s.coef! k m * normPrim (s.exp! k) s.l (s.comp! c)
          * (axisGeneral (s.exp! k) (r 0 - s.ctr 0) (s.comp! c).1 p.1
            * axisGeneral (s.exp! k) (r 1 - s.ctr 1) (s.comp! c).2.1 p.2.1
            * axisGeneral (s.exp! k) (r 2 - s.ctr 2) (s.comp! c).2.2 p.2.2) := by
  rw [dpow_shellSmooth_apply']
  refine Finset.sum_congr rfl fun k hk => ?_
  have hk' := hs k (Finset.mem_range.mp hk)
  rw [axisGeneral_eq_iteratedDeriv _ _ hk', axisGeneral_eq_iteratedDeriv _ _ hk',
    axisGeneral_eq_iteratedDeriv _ _ hk']

/-- **the general back-end of the evaluation model returns the mixed partial derivative `∂^o` of
the smooth shell function at the grid point** -/
theorem evalBlock_general_eq_dpow (s : Shell ℝ) (o : Comp) (pts : Array (ℕ → ℝ)) (m c p : ℕ)
    (hs : ∀ k < s.nprim, 0 < s.exp! k) (hp : p < pts.size) :
    (evalBlock s .general o pts).get3 m c p
      = (dpow pd o (shellSmooth s m c)).1 (toE3 pts[p]) := by
  rw [dpow_shellSmooth_apply,
    evalBlock_general_eq_shellDerivFn s o pts m c p (pts[p] 0, pts[p] 1, pts[p] 2) hs hp rfl rfl rfl]
  rfl

/-- in particular, the first-order blocks are the genuine partial derivatives `fderiv … (e_i)` -/
theorem evalBlock_general_eq_fderiv (s : Shell ℝ) (i : Fin 3) (pts : Array (ℕ → ℝ)) (m c p : ℕ)
    (hs : ∀ k < s.nprim, 0 < s.exp! k) (hp : p < pts.size) :
    (evalBlock s .general (e i) pts).get3 m c p
      = fderiv ℝ (shellFnE s m c) (toE3 pts[p]) (ei i) := by
  rw [evalBlock_general_eq_dpow s (e i) pts m c p hs hp, dpow_e pd_comm]
  rfl

/-! ### A basis of contracted shell functions -/

section ShellBasis

variable {ι : Type*} [Fintype ι] (sh : ι → Shell ℝ) (mm cc : ι → ℕ) (γ : ι → ι → ℝ)

/-- **for a basis made of the model's contracted shell functions, the symbol `D(p; q)` at a point is
`Σ_ab γ_ab (∂^p φ_a)(r) (∂^q φ_b)(r)` with the derivative values `shellDerivFn` that the evaluation
model computes** -/
theorem Dsym_shell_apply (p q : Comp) (r : E3) :
    (Dsym pd (fun a => shellSmooth (sh a) (mm a) (cc a)) γ p q).1 r
      = ∑ a, ∑ b, γ a b * shellDerivFn (sh a) (mm a) (cc a) p (r 0, r 1, r 2)
          * shellDerivFn (sh b) (mm b) (cc b) q (r 0, r 1, r 2) := by
  rw [Dsym_apply]
  simp only [← dpow_coe, dpow_shellSmooth_apply]

/-- the density of such a basis is `Σ_ab γ_ab φ_a(r) φ_b(r)` with `φ = shellFnE` -/
theorem rho_shell_apply (r : E3) :
    (rho pd (fun a => shellSmooth (sh a) (mm a) (cc a)) γ).1 r
      = ∑ a, ∑ b, γ a b * shellFnE (sh a) (mm a) (cc a) r * shellFnE (sh b) (mm b) (cc b) r := by
  rw [rho_apply]; rfl

end ShellBasis

end

end GB

section Axioms
open GB
end Axioms
