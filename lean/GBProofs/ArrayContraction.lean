import GBProofs.ArrayContractionLayout
import GBProofs.ArrayDefiniteness

/-!
# Contractions behave as the linear combinations they denote — the assembled arrays (C13)

`BlockContraction.lean` proves the four laws for the blocks; `ArrayContractionLayout.lean` the index
bookkeeping.  This file puts them together for the arrays over basis functions that the user sees
(`entry2 b b (pairBlocks b b nextra blk) r c e`, i.e. after `norm_cont` and the Cartesian → spherical
transformation, for every mixture of Cartesian and spherical shells):

1. `…_array_splitColumns`: a generalized shell with several coefficient columns gives the same
   functions, in the same order, as that many single-column shells sharing its primitives
   (`Basis.splitColumns`);
2. `…_array_permPrims`: listing the primitives of a shell in another order changes nothing;
3. `…_array_splitPrim`: splitting a primitive (same exponent, coefficients `x·c`, `(1-x)·c`) changes
   nothing;
4. `…_array_scaleColumn_pos / _neg`: multiplying a coefficient column of a unit-normalised shell by
   `x > 0` changes nothing, by `x < 0` flips the sign of that function only.

## Structure

* `Replaced b' b i new`: `b'` is `b` with shell `i` replaced; function `(i, m, f)` of `b` is function
  `f` of segment `(new m).2` of the shell `(new m).1` of `b'` at the same basis index, everything else
  is untouched.  `replaced_splitColumns`, `replaced_mapShell`.
* `entry2_replaced_of_blocks`: the generic lemma.  If the contraction norm of `(new m)` is `lam m`
  times that of `(b[i], m)` and the raw block entries of `(new m)` are `mu m` times those of
  `(b[i], m)` in either slot, every array entry is multiplied by `lam m · mu m` for each of its two
  indices that is a function of segment `m` of shell `i`.
* one generic lemma per law: `entry2_splitColumns_of_blocks`, `entry2_permPrims_of_blocks`,
  `entry2_splitPrim_of_blocks`, `entry2_scaleColumn_of_blocks`, parametrised by the block function and
  its block-level law; `BlockLaws P B e` packages "every entry of `B s t` is a contraction over the
  primitives of `s` and of `t`" (`SlotLinearOn`), from which all four block-level laws follow.
* instances: overlap, kinetic energy, multipole moments, point charges, momentum, angular momentum.

All statements are over ℝ (`realTransc`).  Hypotheses the mathematics forces are explicit: `i < b.size`,
`r, c < b.total`; `σ` permutes `{0,…,K-1}` and the permuted shell has as many columns as the original
(`hseg`, automatic for a rectangular coefficient matrix: `permPrims_nseg_of_rect`); `j < K`; for 4,
`b[i].unitNorm = true` (otherwise `norm_cont` is identically 1 and the entries are simply multiplied by
`x`) and `x > 0` resp. `x < 0`; for the point-charge array
the component degrees do not exceed the angular momenta (`Basis.CompsLe`, as `pointChargeBlock_eq_rys`
needs).  No positivity of exponents is needed for the two-index arrays.
-/
namespace GB
open Finset

/-! ## Weights of shells with the same frame -/
section Weights

theorem frame_sph {s' s : Shell ℝ} (h : s'.frame = s.frame) : s'.sph = s.sph :=
  have := congrArg Shell.sph h; this
theorem frame_cart {s' s : Shell ℝ} (h : s'.frame = s.frame) : s'.cart = s.cart :=
  have := congrArg Shell.cart h; this
theorem frame_sphOrd {s' s : Shell ℝ} (h : s'.frame = s.frame) : s'.sphOrd = s.sphOrd :=
  have := congrArg Shell.sphOrd h; this
theorem frame_l {s' s : Shell ℝ} (h : s'.frame = s.frame) : s'.l = s.l :=
  have := congrArg Shell.l h; this
theorem frame_unitNorm {s' s : Shell ℝ} (h : s'.frame = s.frame) : s'.unitNorm = s.unitNorm :=
  have := congrArg Shell.unitNorm h; this
theorem frame_ncart {s' s : Shell ℝ} (h : s'.frame = s.frame) : s'.ncart = s.ncart := by
  unfold Shell.ncart; rw [frame_cart h]
theorem frame_nfun {s' s : Shell ℝ} (h : s'.frame = s.frame) : s'.nfun = s.nfun := by
  unfold Shell.nfun; rw [frame_cart h, frame_sphOrd h, frame_sph h]
theorem frame_transTab {s' s : Shell ℝ} (h : s'.frame = s.frame) : s'.transTab = s.transTab := by
  unfold Shell.transTab Shell.comp!; rw [frame_cart h, frame_sphOrd h, frame_l h]
theorem frame_degOK {s' s : Shell ℝ} (h : s'.frame = s.frame) (a : ℕ) :
    s'.degOK a ↔ s.degOK a := by
  unfold Shell.degOK Shell.comp!; rw [frame_cart h, frame_l h]

/-- the weight of Cartesian component `a` in function `(m, f)`: (transformation matrix or unit
matrix) × contraction norm -/
theorem cwS_formula (s : Shell ℝ) (m f a : ℕ) :
    cwS s m f a
      = (if s.sph then s.transTab.get2 f a else if a = f then 1 else 0) * (normCont s).get2 m a := by
  unfold cwS Shell.weights
  simp only [tab3_get]
  cases s.sph
  · simp only [Bool.false_eq_true, if_false]
    by_cases h : a = f
    · subst h; simp
    · simp [h]
  · simp

/-- shells with the same frame whose contraction norms differ by the factor `ε` have weights that
differ by the factor `ε` -/
theorem cwS_rel {s' s : Shell ℝ} (hfr : s'.frame = s.frame) (m' m f : ℕ) (ε : ℝ) (a : ℕ)
    (hn : (normCont s').get2 m' a = ε * (normCont s).get2 m a) :
    cwS s' m' f a = ε * cwS s m f a := by
  rw [cwS_formula, cwS_formula, frame_sph hfr, frame_transTab hfr, hn]; ring

/-- the contraction norm is built from the same-shell overlap -/
theorem normCont_congr {s' s : Shell ℝ} (hu : s'.unitNorm = s.unitNorm) (m' m a : ℕ)
    (h : (overlapBlock s' s').get4 m' a m' a = (overlapBlock s s).get4 m a m a) :
    (normCont s').get2 m' a = (normCont s).get2 m a := by
  unfold normCont
  rw [hu]
  cases s.unitNorm
  · simp only [Bool.false_eq_true, if_false, tab2_get]
  · simp only [if_true, tab2_get, h]

/-- **Weights, law 1**: `norm_cont` of the single-column shell `s.column m` is the norm of column `m`
of `s` -/
theorem normCont_column (s : Shell ℝ) (m a : ℕ) :
    (normCont (s.column m)).get2 0 a = (normCont s).get2 m a := by
  refine normCont_congr (s' := s.column m) (s := s) rfl 0 m a ?_
  rw [overlapBlock_column Real.exp Real.sqrt Real.pi s (s.column m) m a 0 a,
    overlapBlock_column_right Real.exp Real.sqrt Real.pi s s m a m a]

/-- **Weights, law 2**: `norm_cont` does not depend on the order of the primitives -/
theorem normCont_permPrims (s : Shell ℝ) (σ : ℕ → ℕ) (m a : ℕ)
    (hmap : ∀ k < s.nprim, σ k < s.nprim)
    (hinj : ∀ k < s.nprim, ∀ k' < s.nprim, σ k = σ k' → k = k') :
    (normCont (s.permPrims σ)).get2 m a = (normCont s).get2 m a := by
  refine normCont_congr (s' := s.permPrims σ) (s := s) rfl m m a ?_
  rw [overlapBlock_permPrims Real.exp Real.sqrt Real.pi s (s.permPrims σ) σ m a m a hmap hinj,
    overlapBlock_permPrims_right Real.exp Real.sqrt Real.pi s s σ m a m a hmap hinj]

/-- **Weights, law 3**: `norm_cont` does not change when a primitive is split -/
theorem normCont_splitPrim (s : Shell ℝ) (j : ℕ) (x : ℝ) (m a : ℕ) (hj : j < s.nprim) :
    (normCont (s.splitPrim j x)).get2 m a = (normCont s).get2 m a := by
  refine normCont_congr (s' := s.splitPrim j x) (s := s) rfl m m a ?_
  rw [overlapBlock_splitPrim Real.exp Real.sqrt Real.pi s (s.splitPrim j x) j x m a m a hj,
    overlapBlock_splitPrim_right Real.exp Real.sqrt Real.pi s s j x m a m a hj]

/-- **Weights, law 4**: for a shell that normalises itself, `norm_cont` of the column multiplied by
`x` is divided by `|x|`; the other columns keep theirs -/
theorem normCont_scaleColumn (s : Shell ℝ) (m : ℕ) (x : ℝ) (m' a : ℕ) (hn : s.unitNorm = true) :
    (normCont (s.scaleColumn m x)).get2 m' a
      = (if m' = m then 1 / |x| else 1) * (normCont s).get2 m' a := by
  by_cases h : m' = m
  · subst h
    rw [if_pos rfl, normCont_scaleColumn_self s m' x a hn, normCont_unit s m' a hn,
      Real.sqrt_mul (mul_self_nonneg x), Real.sqrt_mul_self_eq_abs, one_div_mul_one_div]
  · rw [if_neg h, one_mul, normCont_scaleColumn_other s m x m' a h]

/-- entry `[m][f][a]` of the weight table of a shell -/
theorem weights_get3 (s : Shell ℝ) (m f a : ℕ) :
    s.weights.get3 m f a
      = if s.sph then s.transTab.get2 f a * (normCont s).get2 m a
        else if f = a then (normCont s).get2 m a else 0 := by
  unfold Shell.weights
  simp only [tab3_get]
  cases s.sph <;> simp

/-- shells with the same frame whose contraction norms agree have the same weights -/
theorem weights_congr {s' s : Shell ℝ} (hfr : s'.frame = s.frame) (m' m f a : ℕ)
    (hn : (normCont s').get2 m' a = (normCont s).get2 m a) :
    s'.weights.get3 m' f a = s.weights.get3 m f a := by
  rw [weights_get3, weights_get3, frame_sph hfr, frame_transTab hfr, hn]

/-- **the weights of a column shell**: `(s.column m).weights` at segment 0 is `s.weights` at
segment `m` -/
theorem weights_column (s : Shell ℝ) (m f a : ℕ) :
    (s.column m).weights.get3 0 f a = s.weights.get3 m f a :=
  weights_congr (s' := s.column m) (s := s) rfl 0 m f a (normCont_column s m a)

theorem weights_permPrims (s : Shell ℝ) (σ : ℕ → ℕ) (m f a : ℕ)
    (hmap : ∀ k < s.nprim, σ k < s.nprim)
    (hinj : ∀ k < s.nprim, ∀ k' < s.nprim, σ k = σ k' → k = k') :
    (s.permPrims σ).weights.get3 m f a = s.weights.get3 m f a :=
  weights_congr (s' := s.permPrims σ) (s := s) rfl m m f a (normCont_permPrims s σ m a hmap hinj)

theorem weights_splitPrim (s : Shell ℝ) (j : ℕ) (x : ℝ) (m f a : ℕ) (hj : j < s.nprim) :
    (s.splitPrim j x).weights.get3 m f a = s.weights.get3 m f a :=
  weights_congr (s' := s.splitPrim j x) (s := s) rfl m m f a (normCont_splitPrim s j x m a hj)

end Weights

/-! ## The generic lemma -/
section Framework

/-- `locate` of an in-range index, in terms of `shellOf`, `segOf`, `funOf` -/
theorem located (b : Basis ℝ) (r : ℕ) (hr : r < b.total) :
    ∃ hi : (b.locate r).1 < b.size, shellOf b r = b[(b.locate r).1] ∧
      segOf b r < (shellOf b r).nseg ∧ funOf b r < (shellOf b r).nfun := by
  obtain ⟨hi, hm, hf, -⟩ := locate_lt b r hr
  refine ⟨hi, shellOf_eq b r hi, ?_, ?_⟩
  · rw [shellOf_eq b r hi]; exact hm
  · rw [shellOf_eq b r hi]; exact hf

theorem shellOf_at (b : Basis ℝ) (r i : ℕ) (h : (b.locate r).1 = i) (hi : i < b.size) :
    shellOf b r = b[i] := by
  unfold shellOf; rw [h]; exact getElem!_pos b i hi

/-- **Base lemma.**  Two bases with the same number of functions; if at the indices `r` and `c` the
shells have equally many Cartesian components, the weights differ by the factors `εr`, `εc` and the
raw block entries by the factor `μ`, the array entries differ by `εr · εc · μ`. -/
theorem entry2_scale_of_located (b b' : Basis ℝ) (nextra : ℕ) (blk blk' : ℕ → ℕ → Tab (Tab4 ℝ))
    (e r c : ℕ) (hr : r < b.total) (hc : c < b.total) (ht : b'.total = b.total) (εr εc μ : ℝ)
    (hsr : (shellOf b' r).ncart = (shellOf b r).ncart)
    (hsc : (shellOf b' c).ncart = (shellOf b c).ncart)
    (hwr : ∀ a < (shellOf b r).ncart, cw b' r a = εr * cw b r a)
    (hwc : ∀ a < (shellOf b c).ncart, cw b' c a = εc * cw b c a)
    (hX : ∀ a < (shellOf b r).ncart, ∀ a' < (shellOf b c).ncart,
      ((blk' (b'.locate r).1 (b'.locate c).1).get e).get4 (segOf b' r) a (segOf b' c) a'
        = μ * ((blk (b.locate r).1 (b.locate c).1).get e).get4 (segOf b r) a (segOf b c) a') :
    entry2 b' b' (pairBlocks b' b' nextra blk') r c e
      = εr * εc * μ * entry2 b b (pairBlocks b b nextra blk) r c e := by
  rw [entry2_eq_sum b nextra blk r c e hr hc,
    entry2_eq_sum b' nextra blk' r c e (by rw [ht]; exact hr) (by rw [ht]; exact hc), hsr, hsc,
    Finset.mul_sum]
  refine Finset.sum_congr rfl fun a ha => ?_
  rw [Finset.mul_sum]
  refine Finset.sum_congr rfl fun a' ha' => ?_
  rw [hwr a (Finset.mem_range.mp ha), hwc a' (Finset.mem_range.mp ha'),
    hX a (Finset.mem_range.mp ha) a' (Finset.mem_range.mp ha')]
  ring

/-- `b'` is `b` with shell `i` replaced: basis index `r` of `b'` is function `funOf b r` of segment
`(new m).2` of the shell `(new m).1` if `r` is a function of segment `m` of shell `i` of `b`, and the
same function of the same segment of the same shell as in `b` otherwise. -/
structure Replaced (b' b : Basis ℝ) (i : ℕ) (new : ℕ → Shell ℝ × ℕ) : Prop where
  total : b'.total = b.total
  funOf : ∀ r, r < b.total → funOf b' r = funOf b r
  at_i : ∀ r, r < b.total → (b.locate r).1 = i →
    shellOf b' r = (new (segOf b r)).1 ∧ segOf b' r = (new (segOf b r)).2
  off_i : ∀ r, r < b.total → (b.locate r).1 ≠ i →
    shellOf b' r = shellOf b r ∧ segOf b' r = segOf b r

variable {b' b : Basis ℝ} {i : ℕ} {new : ℕ → Shell ℝ × ℕ}

theorem Replaced.seg_lt (hi : i < b.size) (r : ℕ) (hr : r < b.total)
    (h : (b.locate r).1 = i) : segOf b r < b[i].nseg := by
  obtain ⟨-, -, hm, -⟩ := located b r hr
  rwa [shellOf_at b r i h hi] at hm

/-- frames and weights at an index -/
theorem Replaced.slot (hR : Replaced b' b i new) (hi : i < b.size) (lam : ℕ → ℝ)
    (hframe : ∀ m < b[i].nseg, (new m).1.frame = b[i].frame)
    (hnorm : ∀ m < b[i].nseg, ∀ a < b[i].ncart,
      (normCont (new m).1).get2 (new m).2 a = lam m * (normCont b[i]).get2 m a)
    (r : ℕ) (hr : r < b.total) :
    (shellOf b' r).frame = (shellOf b r).frame ∧
      ∀ a < (shellOf b r).ncart,
        cw b' r a = (if (b.locate r).1 = i then lam (segOf b r) else 1) * cw b r a := by
  by_cases h : (b.locate r).1 = i
  · have hs := shellOf_at b r i h hi
    have hm := Replaced.seg_lt hi r hr h
    obtain ⟨e1, e2⟩ := hR.at_i r hr h
    refine ⟨by rw [e1, hs]; exact hframe _ hm, fun a ha => ?_⟩
    rw [if_pos h]
    unfold cw
    rw [e1, e2, hR.funOf r hr, hs]
    rw [hs] at ha
    exact cwS_rel (hframe _ hm) _ _ _ _ a (hnorm _ hm a ha)
  · obtain ⟨e1, e2⟩ := hR.off_i r hr h
    refine ⟨by rw [e1], fun a _ => ?_⟩
    rw [if_neg h, one_mul]
    unfold cw
    rw [e1, e2, hR.funOf r hr]

/-- **The generic lemma.**  `b'` is `b` with shell `i` replaced (`Replaced`); the replacing shells
have the frame of `b[i]`; the contraction norm of function `(new m)` is `lam m` times that of segment
`m` of `b[i]`; the raw block entries of `(new m)` are `mu m` times those of segment `m` of `b[i]`, in
the left slot against every shell `t` with `P t` and in the right slot likewise (`P` holds for the
shells of `b` and for the replacing shells).  Then every entry of the array of `b'` is the entry of
the array of `b` at the same indices, multiplied by `lam m · mu m` once for each of its two indices
that is a function of segment `m` of shell `i`. -/
theorem entry2_replaced_of_blocks (hR : Replaced b' b i new) (hi : i < b.size) (lam mu : ℕ → ℝ)
    (hframe : ∀ m < b[i].nseg, (new m).1.frame = b[i].frame)
    (hnorm : ∀ m < b[i].nseg, ∀ a < b[i].ncart,
      (normCont (new m).1).get2 (new m).2 a = lam m * (normCont b[i]).get2 m a)
    (P : Shell ℝ → Prop) (hPb : ∀ j (hj : j < b.size), P b[j])
    (hPnew : ∀ m < b[i].nseg, P (new m).1)
    (nextra : ℕ) (B : Shell ℝ → Shell ℝ → Tab (Tab4 ℝ)) (e : ℕ)
    (hBl : ∀ m < b[i].nseg, ∀ t n, P t → ∀ a < b[i].ncart, ∀ c < t.ncart,
      ((B (new m).1 t).get e).get4 (new m).2 a n c = mu m * ((B b[i] t).get e).get4 m a n c)
    (hBr : ∀ n < b[i].nseg, ∀ s m, P s → ∀ a < s.ncart, ∀ c < b[i].ncart,
      ((B s (new n).1).get e).get4 m a (new n).2 c = mu n * ((B s b[i]).get e).get4 m a n c)
    (r c : ℕ) (hr : r < b.total) (hc : c < b.total) :
    entry2 b' b' (pairBlocks b' b' nextra fun j k => B b'[j]! b'[k]!) r c e
      = (if (b.locate r).1 = i then lam (segOf b r) * mu (segOf b r) else 1)
        * (if (b.locate c).1 = i then lam (segOf b c) * mu (segOf b c) else 1)
        * entry2 b b (pairBlocks b b nextra fun j k => B b[j]! b[k]!) r c e := by
  obtain ⟨hir, hsr, -, -⟩ := located b r hr
  obtain ⟨hic, hsc, -, -⟩ := located b c hc
  obtain ⟨hfrr, hcwr⟩ := hR.slot hi lam hframe hnorm r hr
  obtain ⟨hfrc, hcwc⟩ := hR.slot hi lam hframe hnorm c hc
  have hPr : P (shellOf b r) := by rw [hsr]; exact hPb _ hir
  have hPc' : P (shellOf b' c) := by
    by_cases h : (b.locate c).1 = i
    · rw [(hR.at_i c hc h).1]; exact hPnew _ (Replaced.seg_lt hi c hc h)
    · rw [(hR.off_i c hc h).1, hsc]; exact hPb _ hic
  -- the left slot
  have hL : ∀ t n, P t → ∀ a < (shellOf b r).ncart, ∀ c' < t.ncart,
      ((B (shellOf b' r) t).get e).get4 (segOf b' r) a n c'
        = (if (b.locate r).1 = i then mu (segOf b r) else 1)
          * ((B (shellOf b r) t).get e).get4 (segOf b r) a n c' := by
    intro t n ht a ha c' hc'
    by_cases h : (b.locate r).1 = i
    · have hs := shellOf_at b r i h hi
      rw [if_pos h, (hR.at_i r hr h).1, (hR.at_i r hr h).2, hs]
      rw [hs] at ha
      exact hBl _ (Replaced.seg_lt hi r hr h) t n ht a ha c' hc'
    · rw [if_neg h, (hR.off_i r hr h).1, (hR.off_i r hr h).2, one_mul]
  -- the right slot
  have hRt : ∀ s m, P s → ∀ a < s.ncart, ∀ c' < (shellOf b c).ncart,
      ((B s (shellOf b' c)).get e).get4 m a (segOf b' c) c'
        = (if (b.locate c).1 = i then mu (segOf b c) else 1)
          * ((B s (shellOf b c)).get e).get4 m a (segOf b c) c' := by
    intro s m hs a ha c' hc'
    by_cases h : (b.locate c).1 = i
    · have hs' := shellOf_at b c i h hi
      rw [if_pos h, (hR.at_i c hc h).1, (hR.at_i c hc h).2, hs']
      rw [hs'] at hc'
      exact hBr _ (Replaced.seg_lt hi c hc h) s m hs a ha c' hc'
    · rw [if_neg h, (hR.off_i c hc h).1, (hR.off_i c hc h).2, one_mul]
  have key := entry2_scale_of_located b b' nextra (fun j k => B b[j]! b[k]!)
    (fun j k => B b'[j]! b'[k]!) e r c hr hc hR.total
    (if (b.locate r).1 = i then lam (segOf b r) else 1)
    (if (b.locate c).1 = i then lam (segOf b c) else 1)
    ((if (b.locate r).1 = i then mu (segOf b r) else 1)
      * (if (b.locate c).1 = i then mu (segOf b c) else 1))
    (frame_ncart hfrr) (frame_ncart hfrc) hcwr hcwc (by
      intro a ha a' ha'
      show ((B (shellOf b' r) (shellOf b' c)).get e).get4 (segOf b' r) a (segOf b' c) a'
        = _ * ((B (shellOf b r) (shellOf b c)).get e).get4 (segOf b r) a (segOf b c) a'
      rw [hL _ _ hPc' a ha a' (by rw [frame_ncart hfrc]; exact ha'),
        hRt _ _ hPr a ha a' ha', mul_assoc])
  rw [key]
  by_cases h1 : (b.locate r).1 = i <;> by_cases h2 : (b.locate c).1 = i <;>
    simp only [h1, h2, if_true, if_false] <;> ring

end Framework

/-! ## The two ways of replacing a shell -/
section Instances

/-- splitting shell `i` into its columns: function `(i, m, f)` becomes function `f` of the single
segment of the shell `b[i].column m` -/
theorem replaced_splitColumns (b : Basis ℝ) (i : ℕ) (hi : i < b.size) :
    Replaced (b.splitColumns i) b i (fun m => (b[i].column m, 0)) := by
  refine ⟨Basis.splitColumns_total b i, fun r hr => ?_, fun r hr h => ⟨?_, ?_⟩,
    fun r hr h => ⟨?_, ?_⟩⟩
  · unfold funOf
    rw [Basis.splitColumns_locate b i hi r hr]
    split_ifs <;> rfl
  · unfold shellOf segOf
    rw [Basis.splitColumns_shell b i hi r hr, if_pos h]
  · unfold segOf
    rw [Basis.splitColumns_locate b i hi r hr, if_neg (by omega), if_pos h]
  · unfold shellOf
    rw [Basis.splitColumns_shell b i hi r hr, if_neg h]
  · unfold segOf
    rw [Basis.splitColumns_locate b i hi r hr]
    split_ifs <;> rfl

/-- replacing shell `i` by `op b[i]`, where `op` keeps the numbers of segments and functions -/
theorem replaced_mapShell (b : Basis ℝ) (i : ℕ) (op : Shell ℝ → Shell ℝ) (hi : i < b.size)
    (hseg : (op b[i]).nseg = b[i].nseg) (hfun : (op b[i]).nfun = b[i].nfun) :
    Replaced (b.mapShell i op) b i (fun m => (op b[i], m)) := by
  have hloc := Basis.mapShell_locate b i op hi hseg hfun
  refine ⟨Basis.mapShell_total b i op hi hseg hfun, fun r hr => ?_, fun r hr h => ⟨?_, ?_⟩,
    fun r hr h => ⟨?_, ?_⟩⟩
  · unfold funOf; rw [hloc]
  · obtain ⟨hlt, -⟩ := locate_lt b r hr
    unfold shellOf
    rw [hloc, Basis.mapShell_getElem! b i op _ hlt, if_pos h, h, getElem!_pos b i hi]
  · unfold segOf; rw [hloc]
  · obtain ⟨hlt, -⟩ := locate_lt b r hr
    unfold shellOf
    rw [hloc, Basis.mapShell_getElem! b i op _ hlt, if_neg h]
  · unfold segOf; rw [hloc]

end Instances

/-! ## One generic lemma per law -/
section Laws

variable (P : Shell ℝ → Prop) (B : Shell ℝ → Shell ℝ → Tab (Tab4 ℝ)) (e : ℕ)

/-- **Law 1, generic.**  If the block function obeys the column law in both slots (the block of
`s.column m` at segment 0 is the block of `s` at segment `m`; asked only for shells satisfying `P` and
in-range Cartesian components), then every entry of the array of the basis in which shell `i` is
replaced by its columns equals the entry of the array of the original basis at the same `(r, c, e)`.
`P` must hold for the shells of `b` and for the columns of `b[i]`. -/
theorem entry2_splitColumns_of_blocks
    (hBl : ∀ s t m a n c, P s → P t → a < s.ncart → c < t.ncart →
      ((B (s.column m) t).get e).get4 0 a n c = ((B s t).get e).get4 m a n c)
    (hBr : ∀ s t m a n c, P s → P t → a < s.ncart → c < t.ncart →
      ((B s (t.column n)).get e).get4 m a 0 c = ((B s t).get e).get4 m a n c)
    (b : Basis ℝ) (hP : ∀ j (hj : j < b.size), P b[j]) (i : ℕ) (hi : i < b.size)
    (hPnew : ∀ m, P (b[i].column m)) (nextra r c : ℕ) (hr : r < b.total) (hc : c < b.total) :
    entry2 (b.splitColumns i) (b.splitColumns i)
        (pairBlocks (b.splitColumns i) (b.splitColumns i) nextra
          fun j k => B (b.splitColumns i)[j]! (b.splitColumns i)[k]!) r c e
      = entry2 b b (pairBlocks b b nextra fun j k => B b[j]! b[k]!) r c e := by
  have key := entry2_replaced_of_blocks (replaced_splitColumns b i hi) hi (fun _ => 1) (fun _ => 1)
    (fun m _ => rfl) (fun m _ a _ => by rw [one_mul]; exact normCont_column b[i] m a) P hP
    (fun m _ => hPnew m) nextra B e
    (fun m _ t n ht a ha c hc => by
      rw [one_mul]; exact hBl b[i] t m a n c (hP i hi) ht ha hc)
    (fun n _ s m hs a ha c hc => by
      rw [one_mul]; exact hBr s b[i] m a n c hs (hP i hi) ha hc) r c hr hc
  rw [key]
  simp

/-- **Law 2, generic.**  Shell `i` replaced by `b[i].permPrims σ`, `σ` a permutation of `{0,…,K-1}`.
`hseg`: the permuted shell has as many coefficient columns as the original one (true for every shell
whose coefficient rows all have the same length, `permPrims_nseg`). -/
theorem entry2_permPrims_of_blocks (b : Basis ℝ) (hP : ∀ j (hj : j < b.size), P b[j]) (i : ℕ)
    (hi : i < b.size) (σ : ℕ → ℕ)
    (hmap : ∀ k < b[i].nprim, σ k < b[i].nprim)
    (hinj : ∀ k < b[i].nprim, ∀ k' < b[i].nprim, σ k = σ k' → k = k')
    (hseg : (b[i].permPrims σ).nseg = b[i].nseg) (hPnew : P (b[i].permPrims σ))
    (hBl : ∀ t m a n c, P t → a < b[i].ncart → c < t.ncart →
      ((B (b[i].permPrims σ) t).get e).get4 m a n c = ((B b[i] t).get e).get4 m a n c)
    (hBr : ∀ s m a n c, P s → a < s.ncart → c < b[i].ncart →
      ((B s (b[i].permPrims σ)).get e).get4 m a n c = ((B s b[i]).get e).get4 m a n c)
    (nextra r c : ℕ) (hr : r < b.total) (hc : c < b.total) :
    entry2 (b.mapShell i fun s => s.permPrims σ) (b.mapShell i fun s => s.permPrims σ)
        (pairBlocks (b.mapShell i fun s => s.permPrims σ) (b.mapShell i fun s => s.permPrims σ)
          nextra fun j k =>
            B (b.mapShell i fun s => s.permPrims σ)[j]! (b.mapShell i fun s => s.permPrims σ)[k]!)
        r c e
      = entry2 b b (pairBlocks b b nextra fun j k => B b[j]! b[k]!) r c e := by
  have key := entry2_replaced_of_blocks
    (replaced_mapShell b i (fun s => s.permPrims σ) hi hseg rfl) hi (fun _ => 1) (fun _ => 1)
    (fun m _ => rfl)
    (fun m _ a _ => by rw [one_mul]; exact normCont_permPrims b[i] σ m a hmap hinj) P hP
    (fun m _ => hPnew) nextra B e
    (fun m _ t n ht a ha c hc => by rw [one_mul]; exact hBl t m a n c ht ha hc)
    (fun n _ s m hs a ha c hc => by rw [one_mul]; exact hBr s m a n c hs ha hc) r c hr hc
  rw [key]
  simp

/-- `splitPrim` keeps the number of coefficient columns -/
theorem splitPrim_nseg (s : Shell ℝ) (j : ℕ) (x : ℝ) (hj : j < s.nprim) :
    (s.splitPrim j x).nseg = s.nseg := by
  unfold Shell.nseg Shell.splitPrim
  simp only
  rw [Array.getElem?_eq_getElem (by simp)]
  simp only [Array.getElem_ofFn]
  have hne : ¬ (0 = s.nprim) := by omega
  by_cases h : 0 = j
  · subst h
    rw [if_pos rfl]
    by_cases hc : 0 < s.coefs.size
    · simp [Array.getD, hc]
    · simp [Array.getD, hc]
  · rw [if_neg h, if_neg hne]
    by_cases hc : 0 < s.coefs.size
    · simp [Array.getD, hc]
    · simp [Array.getD, hc]

/-- `scaleColumn` keeps the number of coefficient columns -/
theorem scaleColumn_nseg (s : Shell ℝ) (m : ℕ) (x : ℝ) : (s.scaleColumn m x).nseg = s.nseg := by
  unfold Shell.nseg Shell.scaleColumn
  by_cases hc : 0 < s.coefs.size
  · simp [hc]
  · simp [hc]

/-- `permPrims` keeps the number of coefficient columns if the row of the primitive listed first is
as long as the first row -/
theorem permPrims_nseg (s : Shell ℝ) (σ : ℕ → ℕ) (hpos : 0 < s.nprim)
    (hrow : (s.coefs.getD (σ 0) #[]).size = s.nseg) : (s.permPrims σ).nseg = s.nseg := by
  rw [← hrow]
  unfold Shell.nseg Shell.permPrims
  simp only
  rw [Array.getElem?_eq_getElem (by simpa using hpos)]
  simp only [Array.getElem_ofFn]

/-- every primitive has a coefficient in every column (the coefficient matrix is rectangular) -/
def Shell.Rect (s : Shell ℝ) : Prop := ∀ k < s.nprim, (s.coefs.getD k #[]).size = s.nseg

/-- for a shell with a rectangular coefficient matrix (and at least one primitive) every reordering of
the primitives keeps the number of columns: the hypothesis `hseg` of the `…_permPrims` theorems -/
theorem permPrims_nseg_of_rect (s : Shell ℝ) (σ : ℕ → ℕ) (hr : s.Rect) (hpos : 0 < s.nprim)
    (hmap : ∀ k < s.nprim, σ k < s.nprim) : (s.permPrims σ).nseg = s.nseg :=
  permPrims_nseg s σ hpos (hr _ (hmap 0 hpos))

/-- **Law 3, generic.**  Shell `i` replaced by `b[i].splitPrim j x` (`j < K`). -/
theorem entry2_splitPrim_of_blocks (b : Basis ℝ) (hP : ∀ j (hj : j < b.size), P b[j]) (i : ℕ)
    (hi : i < b.size) (j : ℕ) (x : ℝ) (hj : j < b[i].nprim) (hPnew : P (b[i].splitPrim j x))
    (hBl : ∀ t m a n c, P t → a < b[i].ncart → c < t.ncart →
      ((B (b[i].splitPrim j x) t).get e).get4 m a n c = ((B b[i] t).get e).get4 m a n c)
    (hBr : ∀ s m a n c, P s → a < s.ncart → c < b[i].ncart →
      ((B s (b[i].splitPrim j x)).get e).get4 m a n c = ((B s b[i]).get e).get4 m a n c)
    (nextra r c : ℕ) (hr : r < b.total) (hc : c < b.total) :
    entry2 (b.mapShell i fun s => s.splitPrim j x) (b.mapShell i fun s => s.splitPrim j x)
        (pairBlocks (b.mapShell i fun s => s.splitPrim j x) (b.mapShell i fun s => s.splitPrim j x)
          nextra fun k l =>
            B (b.mapShell i fun s => s.splitPrim j x)[k]! (b.mapShell i fun s => s.splitPrim j x)[l]!)
        r c e
      = entry2 b b (pairBlocks b b nextra fun j k => B b[j]! b[k]!) r c e := by
  have key := entry2_replaced_of_blocks
    (replaced_mapShell b i (fun s => s.splitPrim j x) hi (splitPrim_nseg b[i] j x hj) rfl) hi
    (fun _ => 1) (fun _ => 1) (fun m _ => rfl)
    (fun m _ a _ => by rw [one_mul]; exact normCont_splitPrim b[i] j x m a hj) P hP
    (fun m _ => hPnew) nextra B e
    (fun m _ t n ht a ha c hc => by rw [one_mul]; exact hBl t m a n c ht ha hc)
    (fun n _ s m hs a ha c hc => by rw [one_mul]; exact hBr s m a n c hs ha hc) r c hr hc
  rw [key]
  simp

/-- **Law 4, generic.**  Shell `i` — which normalises itself — replaced by `b[i].scaleColumn m₀ x`,
`x ≠ 0`; the raw blocks are linear in the coefficient column.  Every entry is multiplied by the sign
`x/|x|` once for each of its two indices that is a function of column `m₀` of shell `i`. -/
theorem entry2_scaleColumn_of_blocks (b : Basis ℝ) (hP : ∀ j (hj : j < b.size), P b[j]) (i : ℕ)
    (hi : i < b.size) (m₀ : ℕ) (x : ℝ) (hn : b[i].unitNorm = true)
    (hPnew : P (b[i].scaleColumn m₀ x))
    (hBl : ∀ t m a n c, P t → a < b[i].ncart → c < t.ncart →
      ((B (b[i].scaleColumn m₀ x) t).get e).get4 m a n c
        = (if m = m₀ then x else 1) * ((B b[i] t).get e).get4 m a n c)
    (hBr : ∀ s m a n c, P s → a < s.ncart → c < b[i].ncart →
      ((B s (b[i].scaleColumn m₀ x)).get e).get4 m a n c
        = (if n = m₀ then x else 1) * ((B s b[i]).get e).get4 m a n c)
    (nextra r c : ℕ) (hr : r < b.total) (hc : c < b.total) :
    entry2 (b.mapShell i fun s => s.scaleColumn m₀ x) (b.mapShell i fun s => s.scaleColumn m₀ x)
        (pairBlocks (b.mapShell i fun s => s.scaleColumn m₀ x)
          (b.mapShell i fun s => s.scaleColumn m₀ x) nextra fun k l =>
            B (b.mapShell i fun s => s.scaleColumn m₀ x)[k]!
              (b.mapShell i fun s => s.scaleColumn m₀ x)[l]!)
        r c e
      = (if (b.locate r).1 = i ∧ (b.locate r).2.1 = m₀ then x / |x| else 1)
        * (if (b.locate c).1 = i ∧ (b.locate c).2.1 = m₀ then x / |x| else 1)
        * entry2 b b (pairBlocks b b nextra fun j k => B b[j]! b[k]!) r c e := by
  have key := entry2_replaced_of_blocks
    (replaced_mapShell b i (fun s => s.scaleColumn m₀ x) hi (scaleColumn_nseg b[i] m₀ x) rfl) hi
    (fun m => if m = m₀ then 1 / |x| else 1) (fun m => if m = m₀ then x else 1) (fun m _ => rfl)
    (fun m _ a _ => normCont_scaleColumn b[i] m₀ x m a hn) P hP
    (fun m _ => hPnew) nextra B e
    (fun m _ t n ht a ha c hc => hBl t m a n c ht ha hc)
    (fun n _ s m hs a ha c hc => hBr s m a n c hs ha hc) r c hr hc
  rw [key]
  have hfac : ∀ r, (if (b.locate r).1 = i then
        (if segOf b r = m₀ then 1 / |x| else 1) * (if segOf b r = m₀ then x else 1) else 1)
      = if (b.locate r).1 = i ∧ (b.locate r).2.1 = m₀ then x / |x| else 1 := by
    intro r
    unfold segOf
    by_cases h1 : (b.locate r).1 = i <;> by_cases h2 : (b.locate r).2.1 = m₀ <;>
      simp [h1, h2, div_eq_inv_mul]
  rw [hfac r, hfac c]

end Laws

/-! ## Blocks whose entries are contractions over the primitives of either shell -/
section Packaged

theorem SlotLinearOn.mono {ok ok' : Shell ℝ → ℕ → Prop} {E : Shell ℝ → ℕ → ℕ → ℝ}
    (h : SlotLinearOn Real.exp Real.sqrt Real.pi ok E) (himp : ∀ s c, ok' s c → ok s c) :
    SlotLinearOn Real.exp Real.sqrt Real.pi ok' E := by
  obtain ⟨G, hG⟩ := h
  exact ⟨G, fun s m c hs => hG s m c (himp s c hs)⟩

/-- **The block-level input of all four laws**: for shells satisfying `P` (a condition on the frame of
the shell only) every in-range entry of slice `e` of the block `B s t` is a contraction over the
primitives of `s` (`left`) and over the primitives of `t` (`right`) in the sense of `SlotLinearOn`. -/
structure BlockLaws (P : Shell ℝ → Prop) (B : Shell ℝ → Shell ℝ → Tab (Tab4 ℝ)) (e : ℕ) : Prop where
  frame : ∀ s s' : Shell ℝ, s'.frame = s.frame → P s → P s'
  left : ∀ t n c, P t → c < t.ncart →
    SlotLinearOn Real.exp Real.sqrt Real.pi (fun s a => P s ∧ a < s.ncart)
      (fun s m a => ((B s t).get e).get4 m a n c)
  right : ∀ s m a, P s → a < s.ncart →
    SlotLinearOn Real.exp Real.sqrt Real.pi (fun t c => P t ∧ c < t.ncart)
      (fun t n c => ((B s t).get e).get4 m a n c)

namespace BlockLaws
variable {P : Shell ℝ → Prop} {B : Shell ℝ → Shell ℝ → Tab (Tab4 ℝ)} {e : ℕ}

/-- **Law 1 for every array built from such blocks.** -/
theorem array_splitColumns (L : BlockLaws P B e) (b : Basis ℝ)
    (hP : ∀ j (hj : j < b.size), P b[j]) (i : ℕ) (hi : i < b.size) (nextra r c : ℕ)
    (hr : r < b.total) (hc : c < b.total) :
    entry2 (b.splitColumns i) (b.splitColumns i)
        (pairBlocks (b.splitColumns i) (b.splitColumns i) nextra
          fun j k => B (b.splitColumns i)[j]! (b.splitColumns i)[k]!) r c e
      = entry2 b b (pairBlocks b b nextra fun j k => B b[j]! b[k]!) r c e :=
  entry2_splitColumns_of_blocks P B e
    (fun s t m a n c hs ht ha hc =>
      (L.left t n c ht hc).column s m a ⟨hs, ha⟩ ⟨L.frame s _ rfl hs, ha⟩)
    (fun s t m a n c hs ht ha hc =>
      (L.right s m a hs ha).column t n c ⟨ht, hc⟩ ⟨L.frame t _ rfl ht, hc⟩)
    b hP i hi (fun _ => L.frame b[i] _ rfl (hP i hi)) nextra r c hr hc

/-- **Law 2 for every array built from such blocks.** -/
theorem array_permPrims (L : BlockLaws P B e) (b : Basis ℝ)
    (hP : ∀ j (hj : j < b.size), P b[j]) (i : ℕ) (hi : i < b.size) (σ : ℕ → ℕ)
    (hmap : ∀ k < b[i].nprim, σ k < b[i].nprim)
    (hinj : ∀ k < b[i].nprim, ∀ k' < b[i].nprim, σ k = σ k' → k = k')
    (hseg : (b[i].permPrims σ).nseg = b[i].nseg)
    (nextra r c : ℕ) (hr : r < b.total) (hc : c < b.total) :
    entry2 (b.mapShell i fun s => s.permPrims σ) (b.mapShell i fun s => s.permPrims σ)
        (pairBlocks (b.mapShell i fun s => s.permPrims σ) (b.mapShell i fun s => s.permPrims σ)
          nextra fun j k =>
            B (b.mapShell i fun s => s.permPrims σ)[j]! (b.mapShell i fun s => s.permPrims σ)[k]!)
        r c e
      = entry2 b b (pairBlocks b b nextra fun j k => B b[j]! b[k]!) r c e :=
  entry2_permPrims_of_blocks P B e b hP i hi σ hmap hinj hseg (L.frame b[i] _ rfl (hP i hi))
    (fun t m a n c ht ha hc =>
      (L.left t n c ht hc).permPrims b[i] σ m a ⟨hP i hi, ha⟩ ⟨L.frame b[i] _ rfl (hP i hi), ha⟩
        hmap hinj)
    (fun s m a n c hs ha hc =>
      (L.right s m a hs ha).permPrims b[i] σ n c ⟨hP i hi, hc⟩ ⟨L.frame b[i] _ rfl (hP i hi), hc⟩
        hmap hinj)
    nextra r c hr hc

/-- **Law 3 for every array built from such blocks.** -/
theorem array_splitPrim (L : BlockLaws P B e) (b : Basis ℝ)
    (hP : ∀ j (hj : j < b.size), P b[j]) (i : ℕ) (hi : i < b.size) (j : ℕ) (x : ℝ)
    (hj : j < b[i].nprim) (nextra r c : ℕ) (hr : r < b.total) (hc : c < b.total) :
    entry2 (b.mapShell i fun s => s.splitPrim j x) (b.mapShell i fun s => s.splitPrim j x)
        (pairBlocks (b.mapShell i fun s => s.splitPrim j x) (b.mapShell i fun s => s.splitPrim j x)
          nextra fun k l =>
            B (b.mapShell i fun s => s.splitPrim j x)[k]! (b.mapShell i fun s => s.splitPrim j x)[l]!)
        r c e
      = entry2 b b (pairBlocks b b nextra fun j k => B b[j]! b[k]!) r c e :=
  entry2_splitPrim_of_blocks P B e b hP i hi j x hj (L.frame b[i] _ rfl (hP i hi))
    (fun t m a n c ht ha hc =>
      (L.left t n c ht hc).splitPrim b[i] j x m a ⟨hP i hi, ha⟩ ⟨L.frame b[i] _ rfl (hP i hi), ha⟩ hj)
    (fun s m a n c hs ha hc =>
      (L.right s m a hs ha).splitPrim b[i] j x n c ⟨hP i hi, hc⟩ ⟨L.frame b[i] _ rfl (hP i hi), hc⟩
        hj)
    nextra r c hr hc

/-- **Law 4 for every array built from such blocks** (sign form, `x ≠ 0` not even needed: for `x = 0`
the factor `x/|x|` is `0`, as it must be). -/
theorem array_scaleColumn (L : BlockLaws P B e) (b : Basis ℝ)
    (hP : ∀ j (hj : j < b.size), P b[j]) (i : ℕ) (hi : i < b.size) (m₀ : ℕ) (x : ℝ)
    (hn : b[i].unitNorm = true) (nextra r c : ℕ) (hr : r < b.total) (hc : c < b.total) :
    entry2 (b.mapShell i fun s => s.scaleColumn m₀ x) (b.mapShell i fun s => s.scaleColumn m₀ x)
        (pairBlocks (b.mapShell i fun s => s.scaleColumn m₀ x)
          (b.mapShell i fun s => s.scaleColumn m₀ x) nextra fun k l =>
            B (b.mapShell i fun s => s.scaleColumn m₀ x)[k]!
              (b.mapShell i fun s => s.scaleColumn m₀ x)[l]!)
        r c e
      = (if (b.locate r).1 = i ∧ (b.locate r).2.1 = m₀ then x / |x| else 1)
        * (if (b.locate c).1 = i ∧ (b.locate c).2.1 = m₀ then x / |x| else 1)
        * entry2 b b (pairBlocks b b nextra fun j k => B b[j]! b[k]!) r c e :=
  entry2_scaleColumn_of_blocks P B e b hP i hi m₀ x hn (L.frame b[i] _ rfl (hP i hi))
    (fun t m a n c ht ha hc => by
      have h := (L.left t n c ht hc).scaleColumn b[i] m₀ x m a ⟨hP i hi, ha⟩
        ⟨L.frame b[i] _ rfl (hP i hi), ha⟩
      beta_reduce at h
      rw [h]; split_ifs <;> simp)
    (fun s m a n c hs ha hc => by
      have h := (L.right s m a hs ha).scaleColumn b[i] m₀ x n c ⟨hP i hi, hc⟩
        ⟨L.frame b[i] _ rfl (hP i hi), hc⟩
      beta_reduce at h
      rw [h]; split_ifs <;> simp)
    nextra r c hr hc

/-- **Law 4, `x > 0`**: nothing changes. -/
theorem array_scaleColumn_pos (L : BlockLaws P B e) (b : Basis ℝ)
    (hP : ∀ j (hj : j < b.size), P b[j]) (i : ℕ) (hi : i < b.size) (m₀ : ℕ) (x : ℝ) (hx : 0 < x)
    (hn : b[i].unitNorm = true) (nextra r c : ℕ) (hr : r < b.total) (hc : c < b.total) :
    entry2 (b.mapShell i fun s => s.scaleColumn m₀ x) (b.mapShell i fun s => s.scaleColumn m₀ x)
        (pairBlocks (b.mapShell i fun s => s.scaleColumn m₀ x)
          (b.mapShell i fun s => s.scaleColumn m₀ x) nextra fun k l =>
            B (b.mapShell i fun s => s.scaleColumn m₀ x)[k]!
              (b.mapShell i fun s => s.scaleColumn m₀ x)[l]!)
        r c e
      = entry2 b b (pairBlocks b b nextra fun j k => B b[j]! b[k]!) r c e := by
  rw [L.array_scaleColumn b hP i hi m₀ x hn nextra r c hr hc, abs_of_pos hx, div_self hx.ne']
  simp

/-- **Law 4, `x < 0`**: the sign of the functions of column `m₀` of shell `i` flips, i.e. the entry is
multiplied by `-1` once for each of its two indices that is such a function. -/
theorem array_scaleColumn_neg (L : BlockLaws P B e) (b : Basis ℝ)
    (hP : ∀ j (hj : j < b.size), P b[j]) (i : ℕ) (hi : i < b.size) (m₀ : ℕ) (x : ℝ) (hx : x < 0)
    (hn : b[i].unitNorm = true) (nextra r c : ℕ) (hr : r < b.total) (hc : c < b.total) :
    entry2 (b.mapShell i fun s => s.scaleColumn m₀ x) (b.mapShell i fun s => s.scaleColumn m₀ x)
        (pairBlocks (b.mapShell i fun s => s.scaleColumn m₀ x)
          (b.mapShell i fun s => s.scaleColumn m₀ x) nextra fun k l =>
            B (b.mapShell i fun s => s.scaleColumn m₀ x)[k]!
              (b.mapShell i fun s => s.scaleColumn m₀ x)[l]!)
        r c e
      = (if (b.locate r).1 = i ∧ (b.locate r).2.1 = m₀ then -1 else 1)
        * (if (b.locate c).1 = i ∧ (b.locate c).2.1 = m₀ then -1 else 1)
        * entry2 b b (pairBlocks b b nextra fun j k => B b[j]! b[k]!) r c e := by
  rw [L.array_scaleColumn b hP i hi m₀ x hn nextra r c hr hc, abs_of_neg hx, div_neg,
    div_self hx.ne]

end BlockLaws

end Packaged

/-! ## The arrays of the model -/
section Arrays

/-- shell `i` with its primitives listed in the order `σ` -/
noncomputable def Basis.permPrimsAt (b : Basis ℝ) (i : ℕ) (σ : ℕ → ℕ) : Basis ℝ :=
  b.mapShell i fun s => s.permPrims σ
/-- shell `i` with primitive `j` split into two primitives with the same exponent and the
coefficients `x·c_j`, `(1-x)·c_j` -/
noncomputable def Basis.splitPrimAt (b : Basis ℝ) (i j : ℕ) (x : ℝ) : Basis ℝ :=
  b.mapShell i fun s => s.splitPrim j x
/-- shell `i` with its coefficient column `m` multiplied by `x` -/
noncomputable def Basis.scaleColumnAt (b : Basis ℝ) (i m : ℕ) (x : ℝ) : Basis ℝ :=
  b.mapShell i fun s => s.scaleColumn m x

/-- `-1` if basis index `r` is a function of column `m` of shell `i`, `1` otherwise -/
noncomputable def colSign (b : Basis ℝ) (i m r : ℕ) : ℝ :=
  if (b.locate r).1 = i ∧ (b.locate r).2.1 = m then -1 else 1

theorem Basis.permPrimsAt_total (b : Basis ℝ) (i : ℕ) (hi : i < b.size) (σ : ℕ → ℕ)
    (hseg : (b[i].permPrims σ).nseg = b[i].nseg) : (b.permPrimsAt i σ).total = b.total :=
  Basis.mapShell_total b i _ hi hseg rfl

theorem Basis.splitPrimAt_total (b : Basis ℝ) (i : ℕ) (hi : i < b.size) (j : ℕ) (x : ℝ)
    (hj : j < b[i].nprim) : (b.splitPrimAt i j x).total = b.total :=
  Basis.mapShell_total b i _ hi (splitPrim_nseg b[i] j x hj) rfl

theorem Basis.scaleColumnAt_total (b : Basis ℝ) (i : ℕ) (hi : i < b.size) (m : ℕ) (x : ℝ) :
    (b.scaleColumnAt i m x).total = b.total :=
  Basis.mapShell_total b i _ hi (scaleColumn_nseg b[i] m x) rfl

/-- `locate` is unchanged by the three operations that keep the shape of the shell -/
theorem Basis.permPrimsAt_locate (b : Basis ℝ) (i : ℕ) (hi : i < b.size) (σ : ℕ → ℕ)
    (hseg : (b[i].permPrims σ).nseg = b[i].nseg) (r : ℕ) :
    (b.permPrimsAt i σ).locate r = b.locate r :=
  Basis.mapShell_locate b i _ hi hseg rfl r

theorem Basis.splitPrimAt_locate (b : Basis ℝ) (i : ℕ) (hi : i < b.size) (j : ℕ) (x : ℝ)
    (hj : j < b[i].nprim) (r : ℕ) : (b.splitPrimAt i j x).locate r = b.locate r :=
  Basis.mapShell_locate b i _ hi (splitPrim_nseg b[i] j x hj) rfl r

theorem Basis.scaleColumnAt_locate (b : Basis ℝ) (i : ℕ) (hi : i < b.size) (m : ℕ) (x : ℝ)
    (r : ℕ) : (b.scaleColumnAt i m x).locate r = b.locate r :=
  Basis.mapShell_locate b i _ hi (scaleColumn_nseg b[i] m x) rfl r

theorem ofFn_congr {n n' : ℕ} (h : n' = n) (f' : Fin n' → ℝ) (f : Fin n → ℝ)
    (hf : ∀ k (hk : k < n'), f' ⟨k, hk⟩ = f ⟨k, h ▸ hk⟩) : Array.ofFn f' = Array.ofFn f := by
  subst h
  congr
  funext k
  exact hf k.1 k.2

/-- two bases with the same number of functions whose array entries agree have the same flat
array -/
theorem assemble2_congr (b b' : Basis ℝ) (nextra : ℕ) (blk blk' : ℕ → ℕ → Tab (Tab4 ℝ))
    (ht : b'.total = b.total)
    (h : ∀ r c e, r < b.total → c < b.total → e < nextra →
      entry2 b' b' (pairBlocks b' b' nextra blk') r c e
        = entry2 b b (pairBlocks b b nextra blk) r c e) :
    assemble2 b' b' nextra blk' = assemble2 b b nextra blk := by
  unfold assemble2
  refine ofFn_congr (by rw [ht]) _ _ fun k hk => ?_
  have hk' : k < b.total * b.total * nextra := by rw [ht] at hk; exact hk
  have hb : 0 < b.total := by
    rcases Nat.eq_zero_or_pos b.total with h0 | h0
    · rw [h0] at hk'; simp at hk'
    · exact h0
  have hn : 0 < nextra := by
    rcases Nat.eq_zero_or_pos nextra with h0 | h0
    · rw [h0] at hk'; simp at hk'
    · exact h0
  show entry2 b' b' (pairBlocks b' b' nextra blk') (k / (b'.total * nextra))
      (k / nextra % b'.total) (k % nextra)
    = entry2 b b (pairBlocks b b nextra blk) (k / (b.total * nextra)) (k / nextra % b.total)
      (k % nextra)
  rw [ht]
  refine h _ _ _ ?_ (Nat.mod_lt _ hb) (Nat.mod_lt _ hn)
  apply Nat.div_lt_of_lt_mul
  calc k < b.total * b.total * nextra := hk'
    _ = b.total * nextra * b.total := by ring

/-- entry-wise relation between the flat arrays of two bases with the same number of functions -/
theorem assemble2_get_rel (b b' : Basis ℝ) (nextra : ℕ) (blk blk' : ℕ → ℕ → Tab (Tab4 ℝ))
    (ht : b'.total = b.total) (r c e : ℕ) (hr : r < b.total) (hc : c < b.total) (he : e < nextra)
    (ε : ℝ)
    (h : entry2 b' b' (pairBlocks b' b' nextra blk') r c e
        = ε * entry2 b b (pairBlocks b b nextra blk) r c e) :
    (assemble2 b' b' nextra blk')[(r * b.total + c) * nextra + e]!
      = ε * (assemble2 b b nextra blk)[(r * b.total + c) * nextra + e]! := by
  rw [assemble2_get b b nextra blk r c e hr hc he, ← h]
  have := assemble2_get b' b' nextra blk' r c e (by rw [ht]; exact hr) (by rw [ht]; exact hc) he
  rw [ht] at this
  exact this

/-- the `blk` argument with which `Driver.lean` calls `assemble2` for `"moment"` -/
noncomputable def momentBlk (b : Basis ℝ) (O : ℕ → ℝ) (orders : List Comp) (i j : ℕ) :
    Tab (Tab4 ℝ) := momentBlock b[i]! b[j]! O orders
/-- the `blk` argument with which `Driver.lean` calls `assemble2` for `"momentum"` -/
noncomputable def momentumBlk (b : Basis ℝ) (i j : ℕ) : Tab (Tab4 ℝ) := momentumBlock b[i]! b[j]!
/-- the `blk` argument with which `Driver.lean` calls `assemble2` for `"angmom"` -/
noncomputable def angmomBlk (b : Basis ℝ) (i j : ℕ) : Tab (Tab4 ℝ) := angmomBlock b[i]! b[j]!

/-- every Cartesian component in use has total degree at most the angular momentum of the shell -/
def Shell.CompsLe (s : Shell ℝ) : Prop := ∀ a < s.ncart, s.degOK a

theorem overlap_blockLaws (e : ℕ) :
    BlockLaws (fun _ => True) (fun s t => tab 1 fun _ => overlapBlock s t) e where
  frame := fun _ _ _ _ => trivial
  left := fun t n c _ _ =>
    ((overlapBlock_slotLinear_left Real.exp Real.sqrt Real.pi t n c).on _).congr
      fun s m a _ => by simp only [tab_get]
  right := fun s m a _ _ =>
    ((overlapBlock_slotLinear_right Real.exp Real.sqrt Real.pi s m a).on _).congr
      fun t n c _ => by simp only [tab_get]

theorem kinetic_blockLaws (e : ℕ) :
    BlockLaws (fun _ => True) (fun s t => tab 1 fun _ => kineticBlock s t) e where
  frame := fun _ _ _ _ => trivial
  left := fun t n c _ _ =>
    ((kineticBlock_slotLinear_left Real.exp Real.sqrt Real.pi t n c).on _).congr
      fun s m a _ => by simp only [tab_get]
  right := fun s m a _ _ =>
    ((kineticBlock_slotLinear_right Real.exp Real.sqrt Real.pi s m a).on _).congr
      fun t n c _ => by simp only [tab_get]

theorem moment_blockLaws (O : ℕ → ℝ) (orders : List Comp) (e : ℕ) :
    BlockLaws (fun _ => True) (fun s t => momentBlock s t O orders) e where
  frame := fun _ _ _ _ => trivial
  left := fun t n c _ _ =>
    (momentBlock_slotLinear_left Real.exp Real.sqrt Real.pi t O orders e n c).on _
  right := fun s m a _ _ =>
    (momentBlock_slotLinear_right Real.exp Real.sqrt Real.pi s O orders e m a).on _

theorem momentum_blockLaws (e : ℕ) :
    BlockLaws (fun _ => True) (fun s t => momentumBlock s t) e where
  frame := fun _ _ _ _ => trivial
  left := fun t n c _ _ =>
    (momentumBlock_slotLinear_left Real.exp Real.sqrt Real.pi t e n c).on _
  right := fun s m a _ _ =>
    (momentumBlock_slotLinear_right Real.exp Real.sqrt Real.pi s e m a).on _

theorem angmom_blockLaws (e : ℕ) :
    BlockLaws (fun _ => True) (fun s t => angmomBlock s t) e where
  frame := fun _ _ _ _ => trivial
  left := fun t n c _ _ =>
    (angmomBlock_slotLinear_left Real.exp Real.sqrt Real.pi t e n c).on _
  right := fun s m a _ _ =>
    (angmomBlock_slotLinear_right Real.exp Real.sqrt Real.pi s e m a).on _

theorem pointCharge_blockLaws (boysT : ℝ → ℕ → Tab ℝ) (np : ℕ) (pts : ℕ → ℕ → ℝ) (qs : ℕ → ℝ)
    (e : ℕ) :
    BlockLaws Shell.CompsLe
      (fun s t => tab np fun e => pointChargeBlock boysT s t (pts e) (qs e)) e where
  frame := fun s s' h hs a ha => (frame_degOK h a).mpr (hs a (by rw [← frame_ncart h]; exact ha))
  left := fun t n c ht hc =>
    ((pointChargeBlock_slotLinear_left Real.exp Real.sqrt Real.pi boysT t (pts e) (qs e) n c
      (ht c hc)).mono fun s a h => h.1 a h.2).congr fun s m a _ => by simp only [tab_get]
  right := fun s m a hs ha =>
    ((pointChargeBlock_slotLinear_right Real.exp Real.sqrt Real.pi boysT s (pts e) (qs e) m a
      (hs a ha)).mono fun t c h => h.1 c h.2).congr fun t n c _ => by simp only [tab_get]

theorem Basis.CompsLe.shell {b : Basis ℝ} (hb : b.CompsLe) (j : ℕ) (hj : j < b.size) :
    b[j].CompsLe := fun a ha => hb j hj a ha

/-! ### the overlap array -/

/-- **C13.1, overlap array**: a generalized shell gives the same functions, in the same order, as
its single-column shells sharing its primitives. -/
theorem overlap_array_splitColumns (b : Basis ℝ) (i : ℕ) (hi : i < b.size)
    (r c e : ℕ) (hr : r < b.total) (hc : c < b.total) :
    entry2 (b.splitColumns i) (b.splitColumns i)
        (pairBlocks (b.splitColumns i) (b.splitColumns i) 1 (overlapBlk (b.splitColumns i))) r c e
      = entry2 b b (pairBlocks b b 1 (overlapBlk b)) r c e :=
  (overlap_blockLaws e).array_splitColumns b (fun _ _ => trivial) i hi 1 r c hr hc

/-- the same for the flat array that the driver prints -/
theorem overlap_flat_splitColumns (b : Basis ℝ) (i : ℕ) (hi : i < b.size) :
    assemble2 (b.splitColumns i) (b.splitColumns i) 1 (overlapBlk (b.splitColumns i))
      = assemble2 b b 1 (overlapBlk b) :=
  assemble2_congr b _ _ _ _ (Basis.splitColumns_total b i) fun r c e hr hc _ =>
    overlap_array_splitColumns b i hi r c e hr hc

/-- **C13.2, overlap array**: the order in which the primitives of a shell are listed is
immaterial (`σ` permutes `{0,…,K-1}`; `hseg`: see `permPrims_nseg`). -/
theorem overlap_array_permPrims (b : Basis ℝ) (i : ℕ) (hi : i < b.size) (σ : ℕ → ℕ)
    (hmap : ∀ k < b[i].nprim, σ k < b[i].nprim)
    (hinj : ∀ k < b[i].nprim, ∀ k' < b[i].nprim, σ k = σ k' → k = k')
    (hseg : (b[i].permPrims σ).nseg = b[i].nseg)
    (r c e : ℕ) (hr : r < b.total) (hc : c < b.total) :
    entry2 (b.permPrimsAt i σ) (b.permPrimsAt i σ)
        (pairBlocks (b.permPrimsAt i σ) (b.permPrimsAt i σ) 1 (overlapBlk (b.permPrimsAt i σ))) r c e
      = entry2 b b (pairBlocks b b 1 (overlapBlk b)) r c e :=
  (overlap_blockLaws e).array_permPrims b (fun _ _ => trivial) i hi σ hmap hinj hseg 1 r c hr hc

/-- the same for the flat array that the driver prints -/
theorem overlap_flat_permPrims (b : Basis ℝ) (i : ℕ) (hi : i < b.size) (σ : ℕ → ℕ)
    (hmap : ∀ k < b[i].nprim, σ k < b[i].nprim)
    (hinj : ∀ k < b[i].nprim, ∀ k' < b[i].nprim, σ k = σ k' → k = k')
    (hseg : (b[i].permPrims σ).nseg = b[i].nseg) :
    assemble2 (b.permPrimsAt i σ) (b.permPrimsAt i σ) 1 (overlapBlk (b.permPrimsAt i σ))
      = assemble2 b b 1 (overlapBlk b) :=
  assemble2_congr b _ _ _ _ (Basis.permPrimsAt_total b i hi σ hseg) fun r c e hr hc _ =>
    overlap_array_permPrims b i hi σ hmap hinj hseg r c e hr hc

/-- **C13.3, overlap array**: splitting a primitive in two with the same exponent and the
coefficients `x·c_j`, `(1-x)·c_j` changes nothing. -/
theorem overlap_array_splitPrim (b : Basis ℝ) (i : ℕ) (hi : i < b.size) (j : ℕ) (x : ℝ)
    (hj : j < b[i].nprim) (r c e : ℕ) (hr : r < b.total) (hc : c < b.total) :
    entry2 (b.splitPrimAt i j x) (b.splitPrimAt i j x)
        (pairBlocks (b.splitPrimAt i j x) (b.splitPrimAt i j x) 1 (overlapBlk (b.splitPrimAt i j x))) r c e
      = entry2 b b (pairBlocks b b 1 (overlapBlk b)) r c e :=
  (overlap_blockLaws e).array_splitPrim b (fun _ _ => trivial) i hi j x hj 1 r c hr hc

/-- the same for the flat array that the driver prints -/
theorem overlap_flat_splitPrim (b : Basis ℝ) (i : ℕ) (hi : i < b.size) (j : ℕ) (x : ℝ)
    (hj : j < b[i].nprim) :
    assemble2 (b.splitPrimAt i j x) (b.splitPrimAt i j x) 1 (overlapBlk (b.splitPrimAt i j x))
      = assemble2 b b 1 (overlapBlk b) :=
  assemble2_congr b _ _ _ _ (Basis.splitPrimAt_total b i hi j x hj) fun r c e hr hc _ =>
    overlap_array_splitPrim b i hi j x hj r c e hr hc

/-- **C13.4, overlap array, `x > 0`**: multiplying a coefficient column of a unit-normalised shell by
a positive factor changes nothing. -/
theorem overlap_array_scaleColumn_pos (b : Basis ℝ) (i : ℕ) (hi : i < b.size) (m : ℕ) (x : ℝ)
    (hx : 0 < x) (hn : b[i].unitNorm = true) (r c e : ℕ) (hr : r < b.total) (hc : c < b.total) :
    entry2 (b.scaleColumnAt i m x) (b.scaleColumnAt i m x)
        (pairBlocks (b.scaleColumnAt i m x) (b.scaleColumnAt i m x) 1 (overlapBlk (b.scaleColumnAt i m x))) r c e
      = entry2 b b (pairBlocks b b 1 (overlapBlk b)) r c e :=
  (overlap_blockLaws e).array_scaleColumn_pos b (fun _ _ => trivial) i hi m x hx hn 1 r c hr hc

/-- the same for the flat array that the driver prints -/
theorem overlap_flat_scaleColumn_pos (b : Basis ℝ) (i : ℕ) (hi : i < b.size) (m : ℕ) (x : ℝ)
    (hx : 0 < x) (hn : b[i].unitNorm = true) :
    assemble2 (b.scaleColumnAt i m x) (b.scaleColumnAt i m x) 1 (overlapBlk (b.scaleColumnAt i m x))
      = assemble2 b b 1 (overlapBlk b) :=
  assemble2_congr b _ _ _ _ (Basis.scaleColumnAt_total b i hi m x) fun r c e hr hc _ =>
    overlap_array_scaleColumn_pos b i hi m x hx hn r c e hr hc

/-- **C13.4, overlap array, `x < 0`**: multiplying a coefficient column of a unit-normalised shell by
a negative factor flips the sign of that function only: the entry `(r, c)` is multiplied by `-1` once
for each of `r`, `c` that is a function of column `m` of shell `i` (`colSign`). -/
theorem overlap_array_scaleColumn_neg (b : Basis ℝ) (i : ℕ) (hi : i < b.size) (m : ℕ) (x : ℝ)
    (hx : x < 0) (hn : b[i].unitNorm = true) (r c e : ℕ) (hr : r < b.total) (hc : c < b.total) :
    entry2 (b.scaleColumnAt i m x) (b.scaleColumnAt i m x)
        (pairBlocks (b.scaleColumnAt i m x) (b.scaleColumnAt i m x) 1 (overlapBlk (b.scaleColumnAt i m x))) r c e
      = colSign b i m r * colSign b i m c * entry2 b b (pairBlocks b b 1 (overlapBlk b)) r c e :=
  (overlap_blockLaws e).array_scaleColumn_neg b (fun _ _ => trivial) i hi m x hx hn 1 r c hr hc

/-- the same for the flat array that the driver prints -/
theorem overlap_flat_scaleColumn_neg (b : Basis ℝ) (i : ℕ) (hi : i < b.size) (m : ℕ) (x : ℝ)
    (hx : x < 0) (hn : b[i].unitNorm = true) (r c e : ℕ) (hr : r < b.total) (hc : c < b.total)
    (he : e < 1) :
    (assemble2 (b.scaleColumnAt i m x) (b.scaleColumnAt i m x) 1 (overlapBlk (b.scaleColumnAt i m x)))[(r * b.total + c) * 1 + e]!
      = colSign b i m r * colSign b i m c
        * (assemble2 b b 1 (overlapBlk b))[(r * b.total + c) * 1 + e]! :=
  assemble2_get_rel b _ _ _ _ (Basis.scaleColumnAt_total b i hi m x) r c e hr hc he _
    (overlap_array_scaleColumn_neg b i hi m x hx hn r c e hr hc)

/-! ### the kinetic-energy array -/

/-- **C13.1, kinetic-energy array**: a generalized shell gives the same functions, in the same order, as
its single-column shells sharing its primitives. -/
theorem kinetic_array_splitColumns (b : Basis ℝ) (i : ℕ) (hi : i < b.size)
    (r c e : ℕ) (hr : r < b.total) (hc : c < b.total) :
    entry2 (b.splitColumns i) (b.splitColumns i)
        (pairBlocks (b.splitColumns i) (b.splitColumns i) 1 (kineticBlk (b.splitColumns i))) r c e
      = entry2 b b (pairBlocks b b 1 (kineticBlk b)) r c e :=
  (kinetic_blockLaws e).array_splitColumns b (fun _ _ => trivial) i hi 1 r c hr hc

/-- the same for the flat array that the driver prints -/
theorem kinetic_flat_splitColumns (b : Basis ℝ) (i : ℕ) (hi : i < b.size) :
    assemble2 (b.splitColumns i) (b.splitColumns i) 1 (kineticBlk (b.splitColumns i))
      = assemble2 b b 1 (kineticBlk b) :=
  assemble2_congr b _ _ _ _ (Basis.splitColumns_total b i) fun r c e hr hc _ =>
    kinetic_array_splitColumns b i hi r c e hr hc

/-- **C13.2, kinetic-energy array**: the order in which the primitives of a shell are listed is
immaterial (`σ` permutes `{0,…,K-1}`; `hseg`: see `permPrims_nseg`). -/
theorem kinetic_array_permPrims (b : Basis ℝ) (i : ℕ) (hi : i < b.size) (σ : ℕ → ℕ)
    (hmap : ∀ k < b[i].nprim, σ k < b[i].nprim)
    (hinj : ∀ k < b[i].nprim, ∀ k' < b[i].nprim, σ k = σ k' → k = k')
    (hseg : (b[i].permPrims σ).nseg = b[i].nseg)
    (r c e : ℕ) (hr : r < b.total) (hc : c < b.total) :
    entry2 (b.permPrimsAt i σ) (b.permPrimsAt i σ)
        (pairBlocks (b.permPrimsAt i σ) (b.permPrimsAt i σ) 1 (kineticBlk (b.permPrimsAt i σ))) r c e
      = entry2 b b (pairBlocks b b 1 (kineticBlk b)) r c e :=
  (kinetic_blockLaws e).array_permPrims b (fun _ _ => trivial) i hi σ hmap hinj hseg 1 r c hr hc

/-- the same for the flat array that the driver prints -/
theorem kinetic_flat_permPrims (b : Basis ℝ) (i : ℕ) (hi : i < b.size) (σ : ℕ → ℕ)
    (hmap : ∀ k < b[i].nprim, σ k < b[i].nprim)
    (hinj : ∀ k < b[i].nprim, ∀ k' < b[i].nprim, σ k = σ k' → k = k')
    (hseg : (b[i].permPrims σ).nseg = b[i].nseg) :
    assemble2 (b.permPrimsAt i σ) (b.permPrimsAt i σ) 1 (kineticBlk (b.permPrimsAt i σ))
      = assemble2 b b 1 (kineticBlk b) :=
  assemble2_congr b _ _ _ _ (Basis.permPrimsAt_total b i hi σ hseg) fun r c e hr hc _ =>
    kinetic_array_permPrims b i hi σ hmap hinj hseg r c e hr hc

/-- **C13.3, kinetic-energy array**: splitting a primitive in two with the same exponent and the
coefficients `x·c_j`, `(1-x)·c_j` changes nothing. -/
theorem kinetic_array_splitPrim (b : Basis ℝ) (i : ℕ) (hi : i < b.size) (j : ℕ) (x : ℝ)
    (hj : j < b[i].nprim) (r c e : ℕ) (hr : r < b.total) (hc : c < b.total) :
    entry2 (b.splitPrimAt i j x) (b.splitPrimAt i j x)
        (pairBlocks (b.splitPrimAt i j x) (b.splitPrimAt i j x) 1 (kineticBlk (b.splitPrimAt i j x))) r c e
      = entry2 b b (pairBlocks b b 1 (kineticBlk b)) r c e :=
  (kinetic_blockLaws e).array_splitPrim b (fun _ _ => trivial) i hi j x hj 1 r c hr hc

/-- the same for the flat array that the driver prints -/
theorem kinetic_flat_splitPrim (b : Basis ℝ) (i : ℕ) (hi : i < b.size) (j : ℕ) (x : ℝ)
    (hj : j < b[i].nprim) :
    assemble2 (b.splitPrimAt i j x) (b.splitPrimAt i j x) 1 (kineticBlk (b.splitPrimAt i j x))
      = assemble2 b b 1 (kineticBlk b) :=
  assemble2_congr b _ _ _ _ (Basis.splitPrimAt_total b i hi j x hj) fun r c e hr hc _ =>
    kinetic_array_splitPrim b i hi j x hj r c e hr hc

/-- **C13.4, kinetic-energy array, `x > 0`**: multiplying a coefficient column of a unit-normalised shell by
a positive factor changes nothing. -/
theorem kinetic_array_scaleColumn_pos (b : Basis ℝ) (i : ℕ) (hi : i < b.size) (m : ℕ) (x : ℝ)
    (hx : 0 < x) (hn : b[i].unitNorm = true) (r c e : ℕ) (hr : r < b.total) (hc : c < b.total) :
    entry2 (b.scaleColumnAt i m x) (b.scaleColumnAt i m x)
        (pairBlocks (b.scaleColumnAt i m x) (b.scaleColumnAt i m x) 1 (kineticBlk (b.scaleColumnAt i m x))) r c e
      = entry2 b b (pairBlocks b b 1 (kineticBlk b)) r c e :=
  (kinetic_blockLaws e).array_scaleColumn_pos b (fun _ _ => trivial) i hi m x hx hn 1 r c hr hc

/-- the same for the flat array that the driver prints -/
theorem kinetic_flat_scaleColumn_pos (b : Basis ℝ) (i : ℕ) (hi : i < b.size) (m : ℕ) (x : ℝ)
    (hx : 0 < x) (hn : b[i].unitNorm = true) :
    assemble2 (b.scaleColumnAt i m x) (b.scaleColumnAt i m x) 1 (kineticBlk (b.scaleColumnAt i m x))
      = assemble2 b b 1 (kineticBlk b) :=
  assemble2_congr b _ _ _ _ (Basis.scaleColumnAt_total b i hi m x) fun r c e hr hc _ =>
    kinetic_array_scaleColumn_pos b i hi m x hx hn r c e hr hc

/-- **C13.4, kinetic-energy array, `x < 0`**: multiplying a coefficient column of a unit-normalised shell by
a negative factor flips the sign of that function only: the entry `(r, c)` is multiplied by `-1` once
for each of `r`, `c` that is a function of column `m` of shell `i` (`colSign`). -/
theorem kinetic_array_scaleColumn_neg (b : Basis ℝ) (i : ℕ) (hi : i < b.size) (m : ℕ) (x : ℝ)
    (hx : x < 0) (hn : b[i].unitNorm = true) (r c e : ℕ) (hr : r < b.total) (hc : c < b.total) :
    entry2 (b.scaleColumnAt i m x) (b.scaleColumnAt i m x)
        (pairBlocks (b.scaleColumnAt i m x) (b.scaleColumnAt i m x) 1 (kineticBlk (b.scaleColumnAt i m x))) r c e
      = colSign b i m r * colSign b i m c * entry2 b b (pairBlocks b b 1 (kineticBlk b)) r c e :=
  (kinetic_blockLaws e).array_scaleColumn_neg b (fun _ _ => trivial) i hi m x hx hn 1 r c hr hc

/-- the same for the flat array that the driver prints -/
theorem kinetic_flat_scaleColumn_neg (b : Basis ℝ) (i : ℕ) (hi : i < b.size) (m : ℕ) (x : ℝ)
    (hx : x < 0) (hn : b[i].unitNorm = true) (r c e : ℕ) (hr : r < b.total) (hc : c < b.total)
    (he : e < 1) :
    (assemble2 (b.scaleColumnAt i m x) (b.scaleColumnAt i m x) 1 (kineticBlk (b.scaleColumnAt i m x)))[(r * b.total + c) * 1 + e]!
      = colSign b i m r * colSign b i m c
        * (assemble2 b b 1 (kineticBlk b))[(r * b.total + c) * 1 + e]! :=
  assemble2_get_rel b _ _ _ _ (Basis.scaleColumnAt_total b i hi m x) r c e hr hc he _
    (kinetic_array_scaleColumn_neg b i hi m x hx hn r c e hr hc)

/-! ### the multipole-moment array -/

/-- **C13.1, multipole-moment array**: a generalized shell gives the same functions, in the same order, as
its single-column shells sharing its primitives. -/
theorem moment_array_splitColumns (O : ℕ → ℝ) (orders : List Comp) (b : Basis ℝ) (i : ℕ) (hi : i < b.size)
    (r c e : ℕ) (hr : r < b.total) (hc : c < b.total) :
    entry2 (b.splitColumns i) (b.splitColumns i)
        (pairBlocks (b.splitColumns i) (b.splitColumns i) orders.length (momentBlk (b.splitColumns i) O orders)) r c e
      = entry2 b b (pairBlocks b b orders.length (momentBlk b O orders)) r c e :=
  (moment_blockLaws O orders e).array_splitColumns b (fun _ _ => trivial) i hi orders.length r c hr hc

/-- the same for the flat array that the driver prints -/
theorem moment_flat_splitColumns (O : ℕ → ℝ) (orders : List Comp) (b : Basis ℝ) (i : ℕ) (hi : i < b.size) :
    assemble2 (b.splitColumns i) (b.splitColumns i) orders.length (momentBlk (b.splitColumns i) O orders)
      = assemble2 b b orders.length (momentBlk b O orders) :=
  assemble2_congr b _ _ _ _ (Basis.splitColumns_total b i) fun r c e hr hc _ =>
    moment_array_splitColumns O orders b i hi r c e hr hc

/-- **C13.2, multipole-moment array**: the order in which the primitives of a shell are listed is
immaterial (`σ` permutes `{0,…,K-1}`; `hseg`: see `permPrims_nseg`). -/
theorem moment_array_permPrims (O : ℕ → ℝ) (orders : List Comp) (b : Basis ℝ) (i : ℕ) (hi : i < b.size) (σ : ℕ → ℕ)
    (hmap : ∀ k < b[i].nprim, σ k < b[i].nprim)
    (hinj : ∀ k < b[i].nprim, ∀ k' < b[i].nprim, σ k = σ k' → k = k')
    (hseg : (b[i].permPrims σ).nseg = b[i].nseg)
    (r c e : ℕ) (hr : r < b.total) (hc : c < b.total) :
    entry2 (b.permPrimsAt i σ) (b.permPrimsAt i σ)
        (pairBlocks (b.permPrimsAt i σ) (b.permPrimsAt i σ) orders.length (momentBlk (b.permPrimsAt i σ) O orders)) r c e
      = entry2 b b (pairBlocks b b orders.length (momentBlk b O orders)) r c e :=
  (moment_blockLaws O orders e).array_permPrims b (fun _ _ => trivial) i hi σ hmap hinj hseg orders.length r c hr hc

/-- the same for the flat array that the driver prints -/
theorem moment_flat_permPrims (O : ℕ → ℝ) (orders : List Comp) (b : Basis ℝ) (i : ℕ) (hi : i < b.size) (σ : ℕ → ℕ)
    (hmap : ∀ k < b[i].nprim, σ k < b[i].nprim)
    (hinj : ∀ k < b[i].nprim, ∀ k' < b[i].nprim, σ k = σ k' → k = k')
    (hseg : (b[i].permPrims σ).nseg = b[i].nseg) :
    assemble2 (b.permPrimsAt i σ) (b.permPrimsAt i σ) orders.length (momentBlk (b.permPrimsAt i σ) O orders)
      = assemble2 b b orders.length (momentBlk b O orders) :=
  assemble2_congr b _ _ _ _ (Basis.permPrimsAt_total b i hi σ hseg) fun r c e hr hc _ =>
    moment_array_permPrims O orders b i hi σ hmap hinj hseg r c e hr hc

/-- **C13.3, multipole-moment array**: splitting a primitive in two with the same exponent and the
coefficients `x·c_j`, `(1-x)·c_j` changes nothing. -/
theorem moment_array_splitPrim (O : ℕ → ℝ) (orders : List Comp) (b : Basis ℝ) (i : ℕ) (hi : i < b.size) (j : ℕ) (x : ℝ)
    (hj : j < b[i].nprim) (r c e : ℕ) (hr : r < b.total) (hc : c < b.total) :
    entry2 (b.splitPrimAt i j x) (b.splitPrimAt i j x)
        (pairBlocks (b.splitPrimAt i j x) (b.splitPrimAt i j x) orders.length (momentBlk (b.splitPrimAt i j x) O orders)) r c e
      = entry2 b b (pairBlocks b b orders.length (momentBlk b O orders)) r c e :=
  (moment_blockLaws O orders e).array_splitPrim b (fun _ _ => trivial) i hi j x hj orders.length r c hr hc

/-- the same for the flat array that the driver prints -/
theorem moment_flat_splitPrim (O : ℕ → ℝ) (orders : List Comp) (b : Basis ℝ) (i : ℕ) (hi : i < b.size) (j : ℕ) (x : ℝ)
    (hj : j < b[i].nprim) :
    assemble2 (b.splitPrimAt i j x) (b.splitPrimAt i j x) orders.length (momentBlk (b.splitPrimAt i j x) O orders)
      = assemble2 b b orders.length (momentBlk b O orders) :=
  assemble2_congr b _ _ _ _ (Basis.splitPrimAt_total b i hi j x hj) fun r c e hr hc _ =>
    moment_array_splitPrim O orders b i hi j x hj r c e hr hc

/-- **C13.4, multipole-moment array, `x > 0`**: multiplying a coefficient column of a unit-normalised shell by
a positive factor changes nothing. -/
theorem moment_array_scaleColumn_pos (O : ℕ → ℝ) (orders : List Comp) (b : Basis ℝ) (i : ℕ) (hi : i < b.size) (m : ℕ) (x : ℝ)
    (hx : 0 < x) (hn : b[i].unitNorm = true) (r c e : ℕ) (hr : r < b.total) (hc : c < b.total) :
    entry2 (b.scaleColumnAt i m x) (b.scaleColumnAt i m x)
        (pairBlocks (b.scaleColumnAt i m x) (b.scaleColumnAt i m x) orders.length (momentBlk (b.scaleColumnAt i m x) O orders)) r c e
      = entry2 b b (pairBlocks b b orders.length (momentBlk b O orders)) r c e :=
  (moment_blockLaws O orders e).array_scaleColumn_pos b (fun _ _ => trivial) i hi m x hx hn orders.length r c hr hc

/-- the same for the flat array that the driver prints -/
theorem moment_flat_scaleColumn_pos (O : ℕ → ℝ) (orders : List Comp) (b : Basis ℝ) (i : ℕ) (hi : i < b.size) (m : ℕ) (x : ℝ)
    (hx : 0 < x) (hn : b[i].unitNorm = true) :
    assemble2 (b.scaleColumnAt i m x) (b.scaleColumnAt i m x) orders.length (momentBlk (b.scaleColumnAt i m x) O orders)
      = assemble2 b b orders.length (momentBlk b O orders) :=
  assemble2_congr b _ _ _ _ (Basis.scaleColumnAt_total b i hi m x) fun r c e hr hc _ =>
    moment_array_scaleColumn_pos O orders b i hi m x hx hn r c e hr hc

/-- **C13.4, multipole-moment array, `x < 0`**: multiplying a coefficient column of a unit-normalised shell by
a negative factor flips the sign of that function only: the entry `(r, c)` is multiplied by `-1` once
for each of `r`, `c` that is a function of column `m` of shell `i` (`colSign`). -/
theorem moment_array_scaleColumn_neg (O : ℕ → ℝ) (orders : List Comp) (b : Basis ℝ) (i : ℕ) (hi : i < b.size) (m : ℕ) (x : ℝ)
    (hx : x < 0) (hn : b[i].unitNorm = true) (r c e : ℕ) (hr : r < b.total) (hc : c < b.total) :
    entry2 (b.scaleColumnAt i m x) (b.scaleColumnAt i m x)
        (pairBlocks (b.scaleColumnAt i m x) (b.scaleColumnAt i m x) orders.length (momentBlk (b.scaleColumnAt i m x) O orders)) r c e
      = colSign b i m r * colSign b i m c * entry2 b b (pairBlocks b b orders.length (momentBlk b O orders)) r c e :=
  (moment_blockLaws O orders e).array_scaleColumn_neg b (fun _ _ => trivial) i hi m x hx hn orders.length r c hr hc

/-- the same for the flat array that the driver prints -/
theorem moment_flat_scaleColumn_neg (O : ℕ → ℝ) (orders : List Comp) (b : Basis ℝ) (i : ℕ) (hi : i < b.size) (m : ℕ) (x : ℝ)
    (hx : x < 0) (hn : b[i].unitNorm = true) (r c e : ℕ) (hr : r < b.total) (hc : c < b.total)
    (he : e < orders.length) :
    (assemble2 (b.scaleColumnAt i m x) (b.scaleColumnAt i m x) orders.length (momentBlk (b.scaleColumnAt i m x) O orders))[(r * b.total + c) * orders.length + e]!
      = colSign b i m r * colSign b i m c
        * (assemble2 b b orders.length (momentBlk b O orders))[(r * b.total + c) * orders.length + e]! :=
  assemble2_get_rel b _ _ _ _ (Basis.scaleColumnAt_total b i hi m x) r c e hr hc he _
    (moment_array_scaleColumn_neg O orders b i hi m x hx hn r c e hr hc)

/-! ### the point-charge array -/

/-- **C13.1, point-charge array**: a generalized shell gives the same functions, in the same order, as
its single-column shells sharing its primitives; Cartesian components of degree at most the angular momentum. -/
theorem pointCharge_array_splitColumns (boysT : ℝ → ℕ → Tab ℝ) (np : ℕ) (pts : ℕ → ℕ → ℝ) (qs : ℕ → ℝ) (b : Basis ℝ) (hb : b.CompsLe) (i : ℕ) (hi : i < b.size)
    (r c e : ℕ) (hr : r < b.total) (hc : c < b.total) :
    entry2 (b.splitColumns i) (b.splitColumns i)
        (pairBlocks (b.splitColumns i) (b.splitColumns i) np (pointChargeBlk boysT (b.splitColumns i) np pts qs)) r c e
      = entry2 b b (pairBlocks b b np (pointChargeBlk boysT b np pts qs)) r c e :=
  (pointCharge_blockLaws boysT np pts qs e).array_splitColumns b hb.shell i hi np r c hr hc

/-- the same for the flat array that the driver prints -/
theorem pointCharge_flat_splitColumns (boysT : ℝ → ℕ → Tab ℝ) (np : ℕ) (pts : ℕ → ℕ → ℝ) (qs : ℕ → ℝ) (b : Basis ℝ) (hb : b.CompsLe) (i : ℕ) (hi : i < b.size) :
    assemble2 (b.splitColumns i) (b.splitColumns i) np (pointChargeBlk boysT (b.splitColumns i) np pts qs)
      = assemble2 b b np (pointChargeBlk boysT b np pts qs) :=
  assemble2_congr b _ _ _ _ (Basis.splitColumns_total b i) fun r c e hr hc _ =>
    pointCharge_array_splitColumns boysT np pts qs b hb i hi r c e hr hc

/-- **C13.2, point-charge array**: the order in which the primitives of a shell are listed is
immaterial (`σ` permutes `{0,…,K-1}`; `hseg`: see `permPrims_nseg`); Cartesian components of degree at most the angular momentum. -/
theorem pointCharge_array_permPrims (boysT : ℝ → ℕ → Tab ℝ) (np : ℕ) (pts : ℕ → ℕ → ℝ) (qs : ℕ → ℝ) (b : Basis ℝ) (hb : b.CompsLe) (i : ℕ) (hi : i < b.size) (σ : ℕ → ℕ)
    (hmap : ∀ k < b[i].nprim, σ k < b[i].nprim)
    (hinj : ∀ k < b[i].nprim, ∀ k' < b[i].nprim, σ k = σ k' → k = k')
    (hseg : (b[i].permPrims σ).nseg = b[i].nseg)
    (r c e : ℕ) (hr : r < b.total) (hc : c < b.total) :
    entry2 (b.permPrimsAt i σ) (b.permPrimsAt i σ)
        (pairBlocks (b.permPrimsAt i σ) (b.permPrimsAt i σ) np (pointChargeBlk boysT (b.permPrimsAt i σ) np pts qs)) r c e
      = entry2 b b (pairBlocks b b np (pointChargeBlk boysT b np pts qs)) r c e :=
  (pointCharge_blockLaws boysT np pts qs e).array_permPrims b hb.shell i hi σ hmap hinj hseg np r c hr hc

/-- the same for the flat array that the driver prints -/
theorem pointCharge_flat_permPrims (boysT : ℝ → ℕ → Tab ℝ) (np : ℕ) (pts : ℕ → ℕ → ℝ) (qs : ℕ → ℝ) (b : Basis ℝ) (hb : b.CompsLe) (i : ℕ) (hi : i < b.size) (σ : ℕ → ℕ)
    (hmap : ∀ k < b[i].nprim, σ k < b[i].nprim)
    (hinj : ∀ k < b[i].nprim, ∀ k' < b[i].nprim, σ k = σ k' → k = k')
    (hseg : (b[i].permPrims σ).nseg = b[i].nseg) :
    assemble2 (b.permPrimsAt i σ) (b.permPrimsAt i σ) np (pointChargeBlk boysT (b.permPrimsAt i σ) np pts qs)
      = assemble2 b b np (pointChargeBlk boysT b np pts qs) :=
  assemble2_congr b _ _ _ _ (Basis.permPrimsAt_total b i hi σ hseg) fun r c e hr hc _ =>
    pointCharge_array_permPrims boysT np pts qs b hb i hi σ hmap hinj hseg r c e hr hc

/-- **C13.3, point-charge array**: splitting a primitive in two with the same exponent and the
coefficients `x·c_j`, `(1-x)·c_j` changes nothing; Cartesian components of degree at most the angular momentum. -/
theorem pointCharge_array_splitPrim (boysT : ℝ → ℕ → Tab ℝ) (np : ℕ) (pts : ℕ → ℕ → ℝ) (qs : ℕ → ℝ) (b : Basis ℝ) (hb : b.CompsLe) (i : ℕ) (hi : i < b.size) (j : ℕ) (x : ℝ)
    (hj : j < b[i].nprim) (r c e : ℕ) (hr : r < b.total) (hc : c < b.total) :
    entry2 (b.splitPrimAt i j x) (b.splitPrimAt i j x)
        (pairBlocks (b.splitPrimAt i j x) (b.splitPrimAt i j x) np (pointChargeBlk boysT (b.splitPrimAt i j x) np pts qs)) r c e
      = entry2 b b (pairBlocks b b np (pointChargeBlk boysT b np pts qs)) r c e :=
  (pointCharge_blockLaws boysT np pts qs e).array_splitPrim b hb.shell i hi j x hj np r c hr hc

/-- the same for the flat array that the driver prints -/
theorem pointCharge_flat_splitPrim (boysT : ℝ → ℕ → Tab ℝ) (np : ℕ) (pts : ℕ → ℕ → ℝ) (qs : ℕ → ℝ) (b : Basis ℝ) (hb : b.CompsLe) (i : ℕ) (hi : i < b.size) (j : ℕ) (x : ℝ)
    (hj : j < b[i].nprim) :
    assemble2 (b.splitPrimAt i j x) (b.splitPrimAt i j x) np (pointChargeBlk boysT (b.splitPrimAt i j x) np pts qs)
      = assemble2 b b np (pointChargeBlk boysT b np pts qs) :=
  assemble2_congr b _ _ _ _ (Basis.splitPrimAt_total b i hi j x hj) fun r c e hr hc _ =>
    pointCharge_array_splitPrim boysT np pts qs b hb i hi j x hj r c e hr hc

/-- **C13.4, point-charge array, `x > 0`**: multiplying a coefficient column of a unit-normalised shell by
a positive factor changes nothing; Cartesian components of degree at most the angular momentum. -/
theorem pointCharge_array_scaleColumn_pos (boysT : ℝ → ℕ → Tab ℝ) (np : ℕ) (pts : ℕ → ℕ → ℝ) (qs : ℕ → ℝ) (b : Basis ℝ) (hb : b.CompsLe) (i : ℕ) (hi : i < b.size) (m : ℕ) (x : ℝ)
    (hx : 0 < x) (hn : b[i].unitNorm = true) (r c e : ℕ) (hr : r < b.total) (hc : c < b.total) :
    entry2 (b.scaleColumnAt i m x) (b.scaleColumnAt i m x)
        (pairBlocks (b.scaleColumnAt i m x) (b.scaleColumnAt i m x) np (pointChargeBlk boysT (b.scaleColumnAt i m x) np pts qs)) r c e
      = entry2 b b (pairBlocks b b np (pointChargeBlk boysT b np pts qs)) r c e :=
  (pointCharge_blockLaws boysT np pts qs e).array_scaleColumn_pos b hb.shell i hi m x hx hn np r c hr hc

/-- the same for the flat array that the driver prints -/
theorem pointCharge_flat_scaleColumn_pos (boysT : ℝ → ℕ → Tab ℝ) (np : ℕ) (pts : ℕ → ℕ → ℝ) (qs : ℕ → ℝ) (b : Basis ℝ) (hb : b.CompsLe) (i : ℕ) (hi : i < b.size) (m : ℕ) (x : ℝ)
    (hx : 0 < x) (hn : b[i].unitNorm = true) :
    assemble2 (b.scaleColumnAt i m x) (b.scaleColumnAt i m x) np (pointChargeBlk boysT (b.scaleColumnAt i m x) np pts qs)
      = assemble2 b b np (pointChargeBlk boysT b np pts qs) :=
  assemble2_congr b _ _ _ _ (Basis.scaleColumnAt_total b i hi m x) fun r c e hr hc _ =>
    pointCharge_array_scaleColumn_pos boysT np pts qs b hb i hi m x hx hn r c e hr hc

/-- **C13.4, point-charge array, `x < 0`**: multiplying a coefficient column of a unit-normalised shell by
a negative factor flips the sign of that function only: the entry `(r, c)` is multiplied by `-1` once
for each of `r`, `c` that is a function of column `m` of shell `i` (`colSign`); Cartesian components of degree at most the angular momentum. -/
theorem pointCharge_array_scaleColumn_neg (boysT : ℝ → ℕ → Tab ℝ) (np : ℕ) (pts : ℕ → ℕ → ℝ) (qs : ℕ → ℝ) (b : Basis ℝ) (hb : b.CompsLe) (i : ℕ) (hi : i < b.size) (m : ℕ) (x : ℝ)
    (hx : x < 0) (hn : b[i].unitNorm = true) (r c e : ℕ) (hr : r < b.total) (hc : c < b.total) :
    entry2 (b.scaleColumnAt i m x) (b.scaleColumnAt i m x)
        (pairBlocks (b.scaleColumnAt i m x) (b.scaleColumnAt i m x) np (pointChargeBlk boysT (b.scaleColumnAt i m x) np pts qs)) r c e
      = colSign b i m r * colSign b i m c * entry2 b b (pairBlocks b b np (pointChargeBlk boysT b np pts qs)) r c e :=
  (pointCharge_blockLaws boysT np pts qs e).array_scaleColumn_neg b hb.shell i hi m x hx hn np r c hr hc

/-- the same for the flat array that the driver prints -/
theorem pointCharge_flat_scaleColumn_neg (boysT : ℝ → ℕ → Tab ℝ) (np : ℕ) (pts : ℕ → ℕ → ℝ) (qs : ℕ → ℝ) (b : Basis ℝ) (hb : b.CompsLe) (i : ℕ) (hi : i < b.size) (m : ℕ) (x : ℝ)
    (hx : x < 0) (hn : b[i].unitNorm = true) (r c e : ℕ) (hr : r < b.total) (hc : c < b.total)
    (he : e < np) :
    (assemble2 (b.scaleColumnAt i m x) (b.scaleColumnAt i m x) np (pointChargeBlk boysT (b.scaleColumnAt i m x) np pts qs))[(r * b.total + c) * np + e]!
      = colSign b i m r * colSign b i m c
        * (assemble2 b b np (pointChargeBlk boysT b np pts qs))[(r * b.total + c) * np + e]! :=
  assemble2_get_rel b _ _ _ _ (Basis.scaleColumnAt_total b i hi m x) r c e hr hc he _
    (pointCharge_array_scaleColumn_neg boysT np pts qs b hb i hi m x hx hn r c e hr hc)

/-! ### the momentum array -/

/-- **C13.1, momentum array**: a generalized shell gives the same functions, in the same order, as
its single-column shells sharing its primitives. -/
theorem momentum_array_splitColumns (b : Basis ℝ) (i : ℕ) (hi : i < b.size)
    (r c e : ℕ) (hr : r < b.total) (hc : c < b.total) :
    entry2 (b.splitColumns i) (b.splitColumns i)
        (pairBlocks (b.splitColumns i) (b.splitColumns i) 3 (momentumBlk (b.splitColumns i))) r c e
      = entry2 b b (pairBlocks b b 3 (momentumBlk b)) r c e :=
  (momentum_blockLaws e).array_splitColumns b (fun _ _ => trivial) i hi 3 r c hr hc

/-- the same for the flat array that the driver prints -/
theorem momentum_flat_splitColumns (b : Basis ℝ) (i : ℕ) (hi : i < b.size) :
    assemble2 (b.splitColumns i) (b.splitColumns i) 3 (momentumBlk (b.splitColumns i))
      = assemble2 b b 3 (momentumBlk b) :=
  assemble2_congr b _ _ _ _ (Basis.splitColumns_total b i) fun r c e hr hc _ =>
    momentum_array_splitColumns b i hi r c e hr hc

/-- **C13.2, momentum array**: the order in which the primitives of a shell are listed is
immaterial (`σ` permutes `{0,…,K-1}`; `hseg`: see `permPrims_nseg`). -/
theorem momentum_array_permPrims (b : Basis ℝ) (i : ℕ) (hi : i < b.size) (σ : ℕ → ℕ)
    (hmap : ∀ k < b[i].nprim, σ k < b[i].nprim)
    (hinj : ∀ k < b[i].nprim, ∀ k' < b[i].nprim, σ k = σ k' → k = k')
    (hseg : (b[i].permPrims σ).nseg = b[i].nseg)
    (r c e : ℕ) (hr : r < b.total) (hc : c < b.total) :
    entry2 (b.permPrimsAt i σ) (b.permPrimsAt i σ)
        (pairBlocks (b.permPrimsAt i σ) (b.permPrimsAt i σ) 3 (momentumBlk (b.permPrimsAt i σ))) r c e
      = entry2 b b (pairBlocks b b 3 (momentumBlk b)) r c e :=
  (momentum_blockLaws e).array_permPrims b (fun _ _ => trivial) i hi σ hmap hinj hseg 3 r c hr hc

/-- the same for the flat array that the driver prints -/
theorem momentum_flat_permPrims (b : Basis ℝ) (i : ℕ) (hi : i < b.size) (σ : ℕ → ℕ)
    (hmap : ∀ k < b[i].nprim, σ k < b[i].nprim)
    (hinj : ∀ k < b[i].nprim, ∀ k' < b[i].nprim, σ k = σ k' → k = k')
    (hseg : (b[i].permPrims σ).nseg = b[i].nseg) :
    assemble2 (b.permPrimsAt i σ) (b.permPrimsAt i σ) 3 (momentumBlk (b.permPrimsAt i σ))
      = assemble2 b b 3 (momentumBlk b) :=
  assemble2_congr b _ _ _ _ (Basis.permPrimsAt_total b i hi σ hseg) fun r c e hr hc _ =>
    momentum_array_permPrims b i hi σ hmap hinj hseg r c e hr hc

/-- **C13.3, momentum array**: splitting a primitive in two with the same exponent and the
coefficients `x·c_j`, `(1-x)·c_j` changes nothing. -/
theorem momentum_array_splitPrim (b : Basis ℝ) (i : ℕ) (hi : i < b.size) (j : ℕ) (x : ℝ)
    (hj : j < b[i].nprim) (r c e : ℕ) (hr : r < b.total) (hc : c < b.total) :
    entry2 (b.splitPrimAt i j x) (b.splitPrimAt i j x)
        (pairBlocks (b.splitPrimAt i j x) (b.splitPrimAt i j x) 3 (momentumBlk (b.splitPrimAt i j x))) r c e
      = entry2 b b (pairBlocks b b 3 (momentumBlk b)) r c e :=
  (momentum_blockLaws e).array_splitPrim b (fun _ _ => trivial) i hi j x hj 3 r c hr hc

/-- the same for the flat array that the driver prints -/
theorem momentum_flat_splitPrim (b : Basis ℝ) (i : ℕ) (hi : i < b.size) (j : ℕ) (x : ℝ)
    (hj : j < b[i].nprim) :
    assemble2 (b.splitPrimAt i j x) (b.splitPrimAt i j x) 3 (momentumBlk (b.splitPrimAt i j x))
      = assemble2 b b 3 (momentumBlk b) :=
  assemble2_congr b _ _ _ _ (Basis.splitPrimAt_total b i hi j x hj) fun r c e hr hc _ =>
    momentum_array_splitPrim b i hi j x hj r c e hr hc

/-- **C13.4, momentum array, `x > 0`**: multiplying a coefficient column of a unit-normalised shell by
a positive factor changes nothing. -/
theorem momentum_array_scaleColumn_pos (b : Basis ℝ) (i : ℕ) (hi : i < b.size) (m : ℕ) (x : ℝ)
    (hx : 0 < x) (hn : b[i].unitNorm = true) (r c e : ℕ) (hr : r < b.total) (hc : c < b.total) :
    entry2 (b.scaleColumnAt i m x) (b.scaleColumnAt i m x)
        (pairBlocks (b.scaleColumnAt i m x) (b.scaleColumnAt i m x) 3 (momentumBlk (b.scaleColumnAt i m x))) r c e
      = entry2 b b (pairBlocks b b 3 (momentumBlk b)) r c e :=
  (momentum_blockLaws e).array_scaleColumn_pos b (fun _ _ => trivial) i hi m x hx hn 3 r c hr hc

/-- the same for the flat array that the driver prints -/
theorem momentum_flat_scaleColumn_pos (b : Basis ℝ) (i : ℕ) (hi : i < b.size) (m : ℕ) (x : ℝ)
    (hx : 0 < x) (hn : b[i].unitNorm = true) :
    assemble2 (b.scaleColumnAt i m x) (b.scaleColumnAt i m x) 3 (momentumBlk (b.scaleColumnAt i m x))
      = assemble2 b b 3 (momentumBlk b) :=
  assemble2_congr b _ _ _ _ (Basis.scaleColumnAt_total b i hi m x) fun r c e hr hc _ =>
    momentum_array_scaleColumn_pos b i hi m x hx hn r c e hr hc

/-- **C13.4, momentum array, `x < 0`**: multiplying a coefficient column of a unit-normalised shell by
a negative factor flips the sign of that function only: the entry `(r, c)` is multiplied by `-1` once
for each of `r`, `c` that is a function of column `m` of shell `i` (`colSign`). -/
theorem momentum_array_scaleColumn_neg (b : Basis ℝ) (i : ℕ) (hi : i < b.size) (m : ℕ) (x : ℝ)
    (hx : x < 0) (hn : b[i].unitNorm = true) (r c e : ℕ) (hr : r < b.total) (hc : c < b.total) :
    entry2 (b.scaleColumnAt i m x) (b.scaleColumnAt i m x)
        (pairBlocks (b.scaleColumnAt i m x) (b.scaleColumnAt i m x) 3 (momentumBlk (b.scaleColumnAt i m x))) r c e
      = colSign b i m r * colSign b i m c * entry2 b b (pairBlocks b b 3 (momentumBlk b)) r c e :=
  (momentum_blockLaws e).array_scaleColumn_neg b (fun _ _ => trivial) i hi m x hx hn 3 r c hr hc

/-- the same for the flat array that the driver prints -/
theorem momentum_flat_scaleColumn_neg (b : Basis ℝ) (i : ℕ) (hi : i < b.size) (m : ℕ) (x : ℝ)
    (hx : x < 0) (hn : b[i].unitNorm = true) (r c e : ℕ) (hr : r < b.total) (hc : c < b.total)
    (he : e < 3) :
    (assemble2 (b.scaleColumnAt i m x) (b.scaleColumnAt i m x) 3 (momentumBlk (b.scaleColumnAt i m x)))[(r * b.total + c) * 3 + e]!
      = colSign b i m r * colSign b i m c
        * (assemble2 b b 3 (momentumBlk b))[(r * b.total + c) * 3 + e]! :=
  assemble2_get_rel b _ _ _ _ (Basis.scaleColumnAt_total b i hi m x) r c e hr hc he _
    (momentum_array_scaleColumn_neg b i hi m x hx hn r c e hr hc)

/-! ### the angular-momentum array -/

/-- **C13.1, angular-momentum array**: a generalized shell gives the same functions, in the same order, as
its single-column shells sharing its primitives. -/
theorem angmom_array_splitColumns (b : Basis ℝ) (i : ℕ) (hi : i < b.size)
    (r c e : ℕ) (hr : r < b.total) (hc : c < b.total) :
    entry2 (b.splitColumns i) (b.splitColumns i)
        (pairBlocks (b.splitColumns i) (b.splitColumns i) 3 (angmomBlk (b.splitColumns i))) r c e
      = entry2 b b (pairBlocks b b 3 (angmomBlk b)) r c e :=
  (angmom_blockLaws e).array_splitColumns b (fun _ _ => trivial) i hi 3 r c hr hc

/-- the same for the flat array that the driver prints -/
theorem angmom_flat_splitColumns (b : Basis ℝ) (i : ℕ) (hi : i < b.size) :
    assemble2 (b.splitColumns i) (b.splitColumns i) 3 (angmomBlk (b.splitColumns i))
      = assemble2 b b 3 (angmomBlk b) :=
  assemble2_congr b _ _ _ _ (Basis.splitColumns_total b i) fun r c e hr hc _ =>
    angmom_array_splitColumns b i hi r c e hr hc

/-- **C13.2, angular-momentum array**: the order in which the primitives of a shell are listed is
immaterial (`σ` permutes `{0,…,K-1}`; `hseg`: see `permPrims_nseg`). -/
theorem angmom_array_permPrims (b : Basis ℝ) (i : ℕ) (hi : i < b.size) (σ : ℕ → ℕ)
    (hmap : ∀ k < b[i].nprim, σ k < b[i].nprim)
    (hinj : ∀ k < b[i].nprim, ∀ k' < b[i].nprim, σ k = σ k' → k = k')
    (hseg : (b[i].permPrims σ).nseg = b[i].nseg)
    (r c e : ℕ) (hr : r < b.total) (hc : c < b.total) :
    entry2 (b.permPrimsAt i σ) (b.permPrimsAt i σ)
        (pairBlocks (b.permPrimsAt i σ) (b.permPrimsAt i σ) 3 (angmomBlk (b.permPrimsAt i σ))) r c e
      = entry2 b b (pairBlocks b b 3 (angmomBlk b)) r c e :=
  (angmom_blockLaws e).array_permPrims b (fun _ _ => trivial) i hi σ hmap hinj hseg 3 r c hr hc

/-- the same for the flat array that the driver prints -/
theorem angmom_flat_permPrims (b : Basis ℝ) (i : ℕ) (hi : i < b.size) (σ : ℕ → ℕ)
    (hmap : ∀ k < b[i].nprim, σ k < b[i].nprim)
    (hinj : ∀ k < b[i].nprim, ∀ k' < b[i].nprim, σ k = σ k' → k = k')
    (hseg : (b[i].permPrims σ).nseg = b[i].nseg) :
    assemble2 (b.permPrimsAt i σ) (b.permPrimsAt i σ) 3 (angmomBlk (b.permPrimsAt i σ))
      = assemble2 b b 3 (angmomBlk b) :=
  assemble2_congr b _ _ _ _ (Basis.permPrimsAt_total b i hi σ hseg) fun r c e hr hc _ =>
    angmom_array_permPrims b i hi σ hmap hinj hseg r c e hr hc

/-- **C13.3, angular-momentum array**: splitting a primitive in two with the same exponent and the
coefficients `x·c_j`, `(1-x)·c_j` changes nothing. -/
theorem angmom_array_splitPrim (b : Basis ℝ) (i : ℕ) (hi : i < b.size) (j : ℕ) (x : ℝ)
    (hj : j < b[i].nprim) (r c e : ℕ) (hr : r < b.total) (hc : c < b.total) :
    entry2 (b.splitPrimAt i j x) (b.splitPrimAt i j x)
        (pairBlocks (b.splitPrimAt i j x) (b.splitPrimAt i j x) 3 (angmomBlk (b.splitPrimAt i j x))) r c e
      = entry2 b b (pairBlocks b b 3 (angmomBlk b)) r c e :=
  (angmom_blockLaws e).array_splitPrim b (fun _ _ => trivial) i hi j x hj 3 r c hr hc

/-- the same for the flat array that the driver prints -/
theorem angmom_flat_splitPrim (b : Basis ℝ) (i : ℕ) (hi : i < b.size) (j : ℕ) (x : ℝ)
    (hj : j < b[i].nprim) :
    assemble2 (b.splitPrimAt i j x) (b.splitPrimAt i j x) 3 (angmomBlk (b.splitPrimAt i j x))
      = assemble2 b b 3 (angmomBlk b) :=
  assemble2_congr b _ _ _ _ (Basis.splitPrimAt_total b i hi j x hj) fun r c e hr hc _ =>
    angmom_array_splitPrim b i hi j x hj r c e hr hc

/-- **C13.4, angular-momentum array, `x > 0`**: multiplying a coefficient column of a unit-normalised shell by
a positive factor changes nothing. -/
theorem angmom_array_scaleColumn_pos (b : Basis ℝ) (i : ℕ) (hi : i < b.size) (m : ℕ) (x : ℝ)
    (hx : 0 < x) (hn : b[i].unitNorm = true) (r c e : ℕ) (hr : r < b.total) (hc : c < b.total) :
    entry2 (b.scaleColumnAt i m x) (b.scaleColumnAt i m x)
        (pairBlocks (b.scaleColumnAt i m x) (b.scaleColumnAt i m x) 3 (angmomBlk (b.scaleColumnAt i m x))) r c e
      = entry2 b b (pairBlocks b b 3 (angmomBlk b)) r c e :=
  (angmom_blockLaws e).array_scaleColumn_pos b (fun _ _ => trivial) i hi m x hx hn 3 r c hr hc

/-- the same for the flat array that the driver prints -/
theorem angmom_flat_scaleColumn_pos (b : Basis ℝ) (i : ℕ) (hi : i < b.size) (m : ℕ) (x : ℝ)
    (hx : 0 < x) (hn : b[i].unitNorm = true) :
    assemble2 (b.scaleColumnAt i m x) (b.scaleColumnAt i m x) 3 (angmomBlk (b.scaleColumnAt i m x))
      = assemble2 b b 3 (angmomBlk b) :=
  assemble2_congr b _ _ _ _ (Basis.scaleColumnAt_total b i hi m x) fun r c e hr hc _ =>
    angmom_array_scaleColumn_pos b i hi m x hx hn r c e hr hc

/-- **C13.4, angular-momentum array, `x < 0`**: multiplying a coefficient column of a unit-normalised shell by
a negative factor flips the sign of that function only: the entry `(r, c)` is multiplied by `-1` once
for each of `r`, `c` that is a function of column `m` of shell `i` (`colSign`). -/
theorem angmom_array_scaleColumn_neg (b : Basis ℝ) (i : ℕ) (hi : i < b.size) (m : ℕ) (x : ℝ)
    (hx : x < 0) (hn : b[i].unitNorm = true) (r c e : ℕ) (hr : r < b.total) (hc : c < b.total) :
    entry2 (b.scaleColumnAt i m x) (b.scaleColumnAt i m x)
        (pairBlocks (b.scaleColumnAt i m x) (b.scaleColumnAt i m x) 3 (angmomBlk (b.scaleColumnAt i m x))) r c e
      = colSign b i m r * colSign b i m c * entry2 b b (pairBlocks b b 3 (angmomBlk b)) r c e :=
  (angmom_blockLaws e).array_scaleColumn_neg b (fun _ _ => trivial) i hi m x hx hn 3 r c hr hc

/-- the same for the flat array that the driver prints -/
theorem angmom_flat_scaleColumn_neg (b : Basis ℝ) (i : ℕ) (hi : i < b.size) (m : ℕ) (x : ℝ)
    (hx : x < 0) (hn : b[i].unitNorm = true) (r c e : ℕ) (hr : r < b.total) (hc : c < b.total)
    (he : e < 3) :
    (assemble2 (b.scaleColumnAt i m x) (b.scaleColumnAt i m x) 3 (angmomBlk (b.scaleColumnAt i m x)))[(r * b.total + c) * 3 + e]!
      = colSign b i m r * colSign b i m c
        * (assemble2 b b 3 (angmomBlk b))[(r * b.total + c) * 3 + e]! :=
  assemble2_get_rel b _ _ _ _ (Basis.scaleColumnAt_total b i hi m x) r c e hr hc he _
    (angmom_array_scaleColumn_neg b i hi m x hx hn r c e hr hc)

end Arrays

end GB
