import GBProofs.RysAnalytic
import Mathlib.Analysis.SpecialFunctions.Gaussian.GaussianIntegral
import Mathlib.MeasureTheory.Integral.IntegralEqImproper
import Mathlib.Analysis.SpecificLimits.Normed
import Mathlib.Topology.Algebra.Order.Floor

/-!
# The Boys-function algorithm of the executable model (over ℝ)

`BF.boysAll` (`GBModel/Num.lean`) evaluates `F_m(T) = ∫₀¹ t^{2m} e^{-T t²} dt` by

* `T ≤ 200`: at the top order, `F_m(T) = e^{-T} Σ_{k=0}^{1200} term_k`, `term_0 = 1/(2m+1)`,
  `term_{k+1} = term_k · 2T/(2m+2k+3)`, then the downward recursion
  `F_m = (2T F_{m+1} + e^{-T})/(2m+1)`;
* `T > 200`: `F_0 = ½ √(π/T)` and the upward recursion `F_{m+1} = ((2m+1) F_m − e^{-T})/(2T)`.

This file proves, over ℝ and with the analytic `GB.boys`, that these formulas are right and bounds
the two truncation errors (series remainder, neglected Gaussian tail).
-/
open MeasureTheory Real intervalIntegral Set Filter Topology
open scoped Nat

namespace GB

/-! ## 1. The terms of the series -/

/-- real mirror of the model's `term`: `term_0 = 1/(2m+1)`, `term_{k+1} = term_k · 2T/(2m+2k+3)` -/
noncomputable def boysTerm (T : ℝ) (m : ℕ) : ℕ → ℝ
  | 0 => 1 / (2 * (m:ℝ) + 1)
  | k+1 => boysTerm T m k * (2 * T) / (2 * (m:ℝ) + 2 * (k:ℝ) + 3)

@[simp] lemma boysTerm_zero (T : ℝ) (m : ℕ) : boysTerm T m 0 = 1 / (2 * (m:ℝ) + 1) := rfl

lemma boysTerm_succ (T : ℝ) (m k : ℕ) :
    boysTerm T m (k+1) = boysTerm T m k * (2 * T) / (2 * (m:ℝ) + 2 * (k:ℝ) + 3) := rfl

/-- `(2m+1)(2m+3)⋯(2m+2n−1)`, the product of the first `n` odd numbers from `2m+1` on -/
noncomputable def boysDen (m n : ℕ) : ℝ := ∏ i ∈ Finset.range n, (2 * (m:ℝ) + 2 * (i:ℝ) + 1)

@[simp] lemma boysDen_zero (m : ℕ) : boysDen m 0 = 1 := by simp [boysDen]

lemma boysDen_succ (m n : ℕ) :
    boysDen m (n+1) = boysDen m n * (2 * (m:ℝ) + 2 * (n:ℝ) + 1) := by
  simp [boysDen, Finset.prod_range_succ]

lemma boysDen_factor_pos (m i : ℕ) : (0:ℝ) < 2 * (m:ℝ) + 2 * (i:ℝ) + 1 := by positivity

lemma boysDen_pos (m n : ℕ) : 0 < boysDen m n :=
  Finset.prod_pos fun i _ => boysDen_factor_pos m i

/-- closed form of the terms: `term_k = (2T)^k / ((2m+1)(2m+3)⋯(2m+2k+1))` -/
theorem boysTerm_closed (T : ℝ) (m k : ℕ) :
    boysTerm T m k = (2 * T)^k / ∏ i ∈ Finset.range (k+1), (2 * (m:ℝ) + 2 * (i:ℝ) + 1) := by
  induction k with
  | zero => simp
  | succ k ih =>
    rw [boysTerm_succ, ih, Finset.prod_range_succ _ (k+1)]
    have h1 : (∏ i ∈ Finset.range (k+1), (2 * (m:ℝ) + 2 * (i:ℝ) + 1)) ≠ 0 :=
      (boysDen_pos m (k+1)).ne'
    have h2 : (2 * (m:ℝ) + 2 * ((k+1 : ℕ):ℝ) + 1) ≠ 0 := (boysDen_factor_pos m (k+1)).ne'
    have h3 : (2 * (m:ℝ) + 2 * (k:ℝ) + 3) ≠ 0 := by positivity
    field_simp
    push_cast
    ring

lemma boysTerm_eq_div_boysDen (T : ℝ) (m k : ℕ) :
    boysTerm T m k = (2 * T)^k / boysDen m (k+1) := boysTerm_closed T m k

lemma boysTerm_nonneg {T : ℝ} (hT : 0 ≤ T) (m k : ℕ) : 0 ≤ boysTerm T m k := by
  rw [boysTerm_eq_div_boysDen]
  exact div_nonneg (pow_nonneg (by linarith) _) (boysDen_pos m _).le

/-! ## 4. The two recursion steps, as the algorithm uses them -/

/-- downward step `F_m = (2T F_{m+1} + e^{-T})/(2m+1)` -/
theorem boys_downward_step (T : ℝ) (m : ℕ) :
    boys T m = (2 * T * boys T (m+1) + Real.exp (-T)) / (2 * (m:ℝ) + 1) := by
  have h : (2 * (m:ℝ) + 1) ≠ 0 := by positivity
  rw [eq_div_iff h, mul_comm]
  exact boys_downward T m

/-- upward step `F_{m+1} = ((2m+1) F_m − e^{-T})/(2T)`, `T ≠ 0` -/
theorem boys_upward_step (T : ℝ) (hT : T ≠ 0) (m : ℕ) :
    boys T (m+1) = ((2 * (m:ℝ) + 1) * boys T m - Real.exp (-T)) / (2 * T) := by
  have h : (2 * T) ≠ 0 := by simpa using hT
  rw [eq_div_iff h, boys_downward T m]
  ring

/-! ## 2. The exact finite identity -/

/-- `F_m(T) = e^{-T} Σ_{k<n} term_k + (2T)^n/((2m+1)⋯(2m+2n−1)) · F_{m+n}(T)`, exactly, for every
`n` and every real `T` -/
theorem boys_partial_sum (T : ℝ) (m n : ℕ) :
    boys T m = Real.exp (-T) * ∑ k ∈ Finset.range n, boysTerm T m k
      + (2 * T)^n / (∏ i ∈ Finset.range n, (2 * (m:ℝ) + 2 * (i:ℝ) + 1)) * boys T (m+n) := by
  induction n with
  | zero => simp
  | succ n ih =>
    have hD : (∏ i ∈ Finset.range n, (2 * (m:ℝ) + 2 * (i:ℝ) + 1)) ≠ 0 := (boysDen_pos m n).ne'
    have hf : (2 * (m:ℝ) + 2 * (n:ℝ) + 1) ≠ 0 := (boysDen_factor_pos m n).ne'
    have hstep := boys_downward_step T (m+n)
    have hcast : (2 * ((m+n : ℕ):ℝ) + 1) = 2 * (m:ℝ) + 2 * (n:ℝ) + 1 := by push_cast; ring
    rw [hcast] at hstep
    rw [Finset.sum_range_succ, boysTerm_closed T m n, Finset.prod_range_succ _ n,
      ← add_assoc m n 1]
    rw [ih, hstep]
    field_simp
    ring

/-! ## 3. The truncation error of the series -/

/-- `F_m(T) ≤ F_m(0)` for `T ≥ 0` -/
theorem boys_le_zero_arg {T : ℝ} (hT : 0 ≤ T) (m : ℕ) : boys T m ≤ boys 0 m := by
  unfold boys
  apply integral_mono_on (by norm_num)
  · exact (boys_integrand_continuous T m).intervalIntegrable _ _
  · exact (boys_integrand_continuous 0 m).intervalIntegrable _ _
  · intro t ht
    apply mul_le_mul_of_nonneg_left _ (pow_nonneg ht.1 _)
    apply Real.exp_le_exp.2
    nlinarith [sq_nonneg t]

/-- `F_m(T) ≤ 1/(2m+1)` for `T ≥ 0` -/
theorem boys_le_inv {T : ℝ} (hT : 0 ≤ T) (m : ℕ) : boys T m ≤ 1 / (2 * (m:ℝ) + 1) :=
  (boys_le_zero_arg hT m).trans_eq (boys_zero_arg m)

/-- `F_m(T)` is antitone in `T` (on all of ℝ) -/
theorem boys_antitone_arg (m : ℕ) {S T : ℝ} (h : S ≤ T) : boys T m ≤ boys S m := by
  unfold boys
  apply integral_mono_on (by norm_num)
  · exact (boys_integrand_continuous T m).intervalIntegrable _ _
  · exact (boys_integrand_continuous S m).intervalIntegrable _ _
  · intro t ht
    apply mul_le_mul_of_nonneg_left _ (pow_nonneg ht.1 _)
    apply Real.exp_le_exp.2
    nlinarith [sq_nonneg t]

/-- `F_{m+n}(T) ≤ F_m(T)` -/
theorem boys_anti_add (T : ℝ) (m n : ℕ) : boys T (m+n) ≤ boys T m := by
  induction n with
  | zero => simp
  | succ n ih => exact (boys_anti T (m+n)).trans ih

/-- the remainder of the series after `n` terms is nonnegative and at most
`(2T)^n / ((2m+1)⋯(2m+2n−1)) / (2(m+n)+1)`; hypothesis `0 ≤ T` (the domain of the algorithm) -/
theorem boys_series_error {T : ℝ} (hT : 0 ≤ T) (m n : ℕ) :
    0 ≤ boys T m - Real.exp (-T) * ∑ k ∈ Finset.range n, boysTerm T m k ∧
    boys T m - Real.exp (-T) * ∑ k ∈ Finset.range n, boysTerm T m k
      ≤ (2 * T)^n / (∏ i ∈ Finset.range n, (2 * (m:ℝ) + 2 * (i:ℝ) + 1)) / (2 * ((m:ℝ) + n) + 1) := by
  have h := boys_partial_sum T m n
  have hc : 0 ≤ (2 * T)^n / (∏ i ∈ Finset.range n, (2 * (m:ℝ) + 2 * (i:ℝ) + 1)) :=
    div_nonneg (pow_nonneg (by linarith) _) (boysDen_pos m n).le
  have e : boys T m - Real.exp (-T) * ∑ k ∈ Finset.range n, boysTerm T m k
      = (2 * T)^n / (∏ i ∈ Finset.range n, (2 * (m:ℝ) + 2 * (i:ℝ) + 1)) * boys T (m+n) := by
    linarith
  rw [e]
  refine ⟨mul_nonneg hc (boys_pos T _).le, ?_⟩
  rw [div_eq_mul_one_div _ (2 * ((m:ℝ) + n) + 1)]
  apply mul_le_mul_of_nonneg_left _ hc
  have := boys_le_inv hT (m+n)
  push_cast at this
  exact this

/-- relative form: the remainder after `n` terms is at most
`(2T)^n / ((2m+1)⋯(2m+2n−1)) · F_m(T)` -/
theorem boys_series_rel_error {T : ℝ} (hT : 0 ≤ T) (m n : ℕ) :
    boys T m - Real.exp (-T) * ∑ k ∈ Finset.range n, boysTerm T m k
      ≤ (2 * T)^n / (∏ i ∈ Finset.range n, (2 * (m:ℝ) + 2 * (i:ℝ) + 1)) * boys T m := by
  have h := boys_partial_sum T m n
  have hc : 0 ≤ (2 * T)^n / (∏ i ∈ Finset.range n, (2 * (m:ℝ) + 2 * (i:ℝ) + 1)) :=
    div_nonneg (pow_nonneg (by linarith) _) (boysDen_pos m n).le
  have e : boys T m - Real.exp (-T) * ∑ k ∈ Finset.range n, boysTerm T m k
      = (2 * T)^n / (∏ i ∈ Finset.range n, (2 * (m:ℝ) + 2 * (i:ℝ) + 1)) * boys T (m+n) := by
    linarith
  rw [e]
  exact mul_le_mul_of_nonneg_left (boys_anti_add T m n) hc


/-! ### 3b. The concrete bound for the model's parameters (`T ≤ 200`, 1201 terms) -/

/-- `1·3·5⋯(2n−1)` over ℕ by structural recursion (so that the kernel can evaluate it) -/
def oddProd : ℕ → ℕ
  | 0 => 1
  | n+1 => oddProd n * (2*n+1)

lemma oddProd_cast (n : ℕ) : ((oddProd n : ℕ) : ℝ) = boysDen 0 n := by
  induction n with
  | zero => simp [oddProd]
  | succ n ih =>
    rw [boysDen_succ, ← ih]
    simp [oddProd]

lemma boysDen_zero_le (m n : ℕ) : boysDen 0 n ≤ boysDen m n := by
  unfold boysDen
  apply Finset.prod_le_prod
  · intro i _; positivity
  · intro i _
    have : (0:ℝ) ≤ (m:ℝ) := Nat.cast_nonneg m
    push_cast
    linarith

/-- `400^1201 · 10^416 ≤ 1·3·5⋯2401 · 2403` (integer arithmetic, checked by the kernel) -/
lemma oddProd_1201_abs : 400^1201 * 10^416 ≤ oddProd 1201 * 2403 := by decide +kernel

/-- `400^1201 · 10^413 ≤ 1·3·5⋯2401` (integer arithmetic, checked by the kernel) -/
lemma oddProd_1201_rel : 400^1201 * 10^413 ≤ oddProd 1201 := by decide +kernel

lemma nat_div_div_le {a b c d : ℕ} (hb : 0 < b) (hc : 0 < c) (hd : 0 < d) (h : a * c ≤ b * d) :
    (a:ℝ) / b / d ≤ 1 / c := by
  have hb' : (0:ℝ) < b := by exact_mod_cast hb
  have hc' : (0:ℝ) < c := by exact_mod_cast hc
  have hd' : (0:ℝ) < d := by exact_mod_cast hd
  have h' : (a:ℝ) * c ≤ b * d := by exact_mod_cast h
  rw [div_div, div_le_div_iff₀ (mul_pos hb' hd') hc']
  linarith

lemma oddProd_pos (n : ℕ) : 0 < oddProd n := by
  induction n with
  | zero => simp [oddProd]
  | succ n ih => exact Nat.mul_pos ih (by omega)

/-- the bound of `boys_series_error` is monotone in `T` and maximal at `m = 0` -/
lemma boys_series_bound_le {T B : ℝ} (hT : 0 ≤ T) (hTB : T ≤ B) (m n : ℕ) :
    (2 * T)^n / (∏ i ∈ Finset.range n, (2 * (m:ℝ) + 2 * (i:ℝ) + 1)) / (2 * ((m:ℝ) + n) + 1)
      ≤ (2 * B)^n / boysDen 0 n / (2 * (n:ℝ) + 1) := by
  have h1 : (2 * T)^n ≤ (2 * B)^n := pow_le_pow_left₀ (by linarith) (by linarith) n
  have h2 : boysDen 0 n ≤ ∏ i ∈ Finset.range n, (2 * (m:ℝ) + 2 * (i:ℝ) + 1) := boysDen_zero_le m n
  have h3 : (2 * (n:ℝ) + 1) ≤ 2 * ((m:ℝ) + n) + 1 := by
    have : (0:ℝ) ≤ (m:ℝ) := Nat.cast_nonneg m
    linarith
  have h0 : 0 < boysDen 0 n := boysDen_pos 0 n
  have hB : 0 ≤ (2 * B)^n := pow_nonneg (by linarith) n
  have hn : (0:ℝ) < 2 * (n:ℝ) + 1 := by positivity
  calc (2 * T)^n / (∏ i ∈ Finset.range n, (2 * (m:ℝ) + 2 * (i:ℝ) + 1)) / (2 * ((m:ℝ) + n) + 1)
      ≤ (2 * B)^n / boysDen 0 n / (2 * ((m:ℝ) + n) + 1) := by
        apply div_le_div_of_nonneg_right _ (by linarith)
        exact div_le_div₀ hB h1 h0 h2
    _ ≤ (2 * B)^n / boysDen 0 n / (2 * (n:ℝ) + 1) :=
        div_le_div_of_nonneg_left (div_nonneg hB h0.le) hn h3

/-- **The model's series truncation**: for `0 ≤ T ≤ 200` the sum of the 1201 terms
`k = 0 … 1200` that `BF.boysAll` adds differs from `F_m(T)` by at most `10^{-416}`
(far below the `2^{-320}` resolution of the model's arithmetic), for every order `m`. -/
theorem boys_series_error_model {T : ℝ} (hT : 0 ≤ T) (hT' : T ≤ 200) (m : ℕ) :
    0 ≤ boys T m - Real.exp (-T) * ∑ k ∈ Finset.range 1201, boysTerm T m k ∧
    boys T m - Real.exp (-T) * ∑ k ∈ Finset.range 1201, boysTerm T m k ≤ 1 / 10^416 := by
  obtain ⟨h0, h1⟩ := boys_series_error hT m 1201
  refine ⟨h0, h1.trans ((boys_series_bound_le hT hT' m 1201).trans ?_)⟩
  have h := nat_div_div_le (a := 400^1201) (b := oddProd 1201) (c := 10^416) (d := 2403)
    (oddProd_pos _) (by positivity) (by norm_num) oddProd_1201_abs
  rw [oddProd_cast] at h
  have e1 : (2 * (200:ℝ)) = ((400 : ℕ) : ℝ) := by norm_num
  have e2 : (2 * ((1201 : ℕ) : ℝ) + 1) = ((2403 : ℕ) : ℝ) := by norm_num
  have e3 : ((10 : ℝ))^416 = (((10:ℕ)^416 : ℕ) : ℝ) := by rw [Nat.cast_pow]; rfl
  rw [e1, e2, e3, ← Nat.cast_pow]
  exact h

/-- **relative form**: for `0 ≤ T ≤ 200` the 1201-term sum has relative error at most
`10^{-413}` -/
theorem boys_series_rel_error_model {T : ℝ} (hT : 0 ≤ T) (hT' : T ≤ 200) (m : ℕ) :
    boys T m - Real.exp (-T) * ∑ k ∈ Finset.range 1201, boysTerm T m k
      ≤ 1 / 10^413 * boys T m := by
  refine (boys_series_rel_error hT m 1201).trans ?_
  apply mul_le_mul_of_nonneg_right _ (boys_pos T m).le
  have h1 : (2 * T)^1201 ≤ (2 * (200:ℝ))^1201 := pow_le_pow_left₀ (by linarith) (by linarith) _
  have h2 : boysDen 0 1201 ≤ ∏ i ∈ Finset.range 1201, (2 * (m:ℝ) + 2 * (i:ℝ) + 1) :=
    boysDen_zero_le m 1201
  refine (div_le_div₀ (by positivity) h1 (boysDen_pos 0 _) h2).trans ?_
  have h := nat_div_div_le (a := 400^1201) (b := oddProd 1201) (c := 10^413) (d := 1)
    (oddProd_pos _) (by positivity) (by norm_num) (by rw [Nat.mul_one]; exact oddProd_1201_rel)
  rw [oddProd_cast, Nat.cast_one, div_one] at h
  have e1 : (2 * (200:ℝ)) = ((400 : ℕ) : ℝ) := by norm_num
  have e3 : ((10 : ℝ))^413 = (((10:ℕ)^413 : ℕ) : ℝ) := by rw [Nat.cast_pow]; rfl
  rw [e1, e3, ← Nat.cast_pow]
  exact h

/-! ### 3c. Convergence of the series (all real `T`) -/

lemma factorial_le_boysDen (m n : ℕ) : ((n ! : ℕ) : ℝ) ≤ boysDen m n := by
  induction n with
  | zero => simp
  | succ n ih =>
    rw [Nat.factorial_succ, boysDen_succ, Nat.cast_mul, mul_comm]
    apply mul_le_mul ih _ (by positivity) (boysDen_pos m n).le
    have : (0:ℝ) ≤ (m:ℝ) := Nat.cast_nonneg m
    have : (0:ℝ) ≤ (n:ℝ) := Nat.cast_nonneg n
    push_cast
    linarith

/-- the remainder term of `boys_partial_sum` tends to `0` as `n → ∞`, for every real `T` -/
theorem boys_remainder_tendsto (T : ℝ) (m : ℕ) :
    Tendsto (fun n : ℕ => (2 * T)^n / (∏ i ∈ Finset.range n, (2 * (m:ℝ) + 2 * (i:ℝ) + 1))
      * boys T (m+n)) atTop (𝓝 0) := by
  have hlim : Tendsto (fun n : ℕ => |2 * T|^n / (n ! : ℝ) * boys T m) atTop (𝓝 0) := by
    simpa using (FloorSemiring.tendsto_pow_div_factorial_atTop (|2 * T|)).mul_const (boys T m)
  refine squeeze_zero_norm (fun n => ?_) hlim
  have hD : 0 < boysDen m n := boysDen_pos m n
  have hfac : (0:ℝ) < (n ! : ℝ) := by exact_mod_cast Nat.factorial_pos n
  rw [Real.norm_eq_abs, abs_mul, abs_div, abs_pow, abs_of_pos (boys_pos T _)]
  change |2 * T|^n / |boysDen m n| * boys T (m+n) ≤ _
  rw [abs_of_pos hD]
  apply mul_le_mul _ (boys_anti_add T m n) (boys_pos T _).le (by positivity)
  exact div_le_div_of_nonneg_left (by positivity) hfac (factorial_le_boysDen m n)

/-- the series converges to the Boys function, for every real `T`:
`F_m(T) = e^{-T} Σ_{k=0}^∞ (2T)^k / ((2m+1)⋯(2m+2k+1))` -/
theorem boys_hasSum (T : ℝ) (m : ℕ) :
    HasSum (fun k => Real.exp (-T) * boysTerm T m k) (boys T m) := by
  have hsumm : Summable (fun k => Real.exp (-T) * boysTerm T m k) := by
    apply Summable.of_norm_bounded (g := fun k : ℕ => Real.exp (-T) * (|2 * T|^k / (k ! : ℝ)))
      ((Real.summable_pow_div_factorial |2 * T|).mul_left _)
    intro k
    have hD : 0 < boysDen m (k+1) := boysDen_pos m (k+1)
    have hfac : (0:ℝ) < (k ! : ℝ) := by exact_mod_cast Nat.factorial_pos k
    rw [Real.norm_eq_abs, abs_mul, abs_of_pos (Real.exp_pos _), boysTerm_eq_div_boysDen,
      abs_div, abs_pow, abs_of_pos hD]
    apply mul_le_mul_of_nonneg_left _ (Real.exp_pos _).le
    apply div_le_div_of_nonneg_left (by positivity) hfac
    refine (factorial_le_boysDen m k).trans ?_
    rw [boysDen_succ]
    have h1 : (1:ℝ) ≤ 2 * (m:ℝ) + 2 * (k:ℝ) + 1 := by
      have : (0:ℝ) ≤ (m:ℝ) := Nat.cast_nonneg m
      have : (0:ℝ) ≤ (k:ℝ) := Nat.cast_nonneg k
      linarith
    exact le_mul_of_one_le_right (boysDen_pos m k).le h1
  rw [hsumm.hasSum_iff_tendsto_nat]
  have h := (boys_remainder_tendsto T m).const_sub (boys T m)
  rw [sub_zero] at h
  refine h.congr (fun n => ?_)
  rw [← Finset.mul_sum]
  have := boys_partial_sum T m n
  linarith

/-! ## 5. The large-`T` start value `F_0(T) ≈ ½√(π/T)` -/

/-- `∫_1^∞ t e^{-T t²} dt = e^{-T}/(2T)` -/
lemma integral_Ioi_one_mul_exp_neg_mul_sq {T : ℝ} (hT : 0 < T) :
    ∫ t in Ioi (1:ℝ), t * Real.exp (-T * t^2) = Real.exp (-T) / (2 * T) := by
  have hderiv : ∀ t ∈ Ici (1:ℝ),
      HasDerivAt (fun t : ℝ => -Real.exp (-T * t^2) / (2 * T)) (t * Real.exp (-T * t^2)) t := by
    intro t _
    have h2 : HasDerivAt (fun t : ℝ => Real.exp (-T * t ^ 2))
        (Real.exp (-T * t^2) * (-T * (2 * t))) t := by
      have := ((hasDerivAt_pow 2 t).const_mul (-T)).exp
      simpa using this
    have h3 : HasDerivAt (fun t : ℝ => -Real.exp (-T * t^2) / (2 * T))
        (-(Real.exp (-T * t^2) * (-T * (2 * t))) / (2 * T)) t := (h2.neg).div_const (2 * T)
    have e : t * Real.exp (-T * t^2) = -(Real.exp (-T * t^2) * (-T * (2 * t))) / (2 * T) := by
      field_simp
    rw [e]
    exact h3
  have hlim : Tendsto (fun t : ℝ => -Real.exp (-T * t^2) / (2 * T)) atTop (𝓝 0) := by
    have h1 : Tendsto (fun t : ℝ => -T * t^2) atTop atBot :=
      (tendsto_pow_atTop (by norm_num : (2:ℕ) ≠ 0)).const_mul_atTop_of_neg (by linarith)
    have h2 := (Real.tendsto_exp_atBot.comp h1).neg.div_const (2 * T)
    simpa using h2
  have hint : IntegrableOn (fun t : ℝ => t * Real.exp (-T * t^2)) (Ioi 1) :=
    (integrable_mul_exp_neg_mul_sq hT).integrableOn
  rw [integral_Ioi_of_hasDerivAt_of_tendsto' hderiv hint hlim]
  simp
  ring

/-- `F_0(T) = ½√(π/T) − ∫_1^∞ e^{-T t²} dt` with `0 ≤ ∫_1^∞ e^{-T t²} dt ≤ e^{-T}/(2T)`:
the start value of the upward branch underestimates nothing and overestimates by at most
`e^{-T}/(2T)`.  Hypothesis `0 < T`. -/
theorem boys_zero_asymptotic {T : ℝ} (hT : 0 < T) :
    0 ≤ √(π / T) / 2 - boys T 0 ∧ √(π / T) / 2 - boys T 0 ≤ Real.exp (-T) / (2 * T) := by
  have hf : Integrable (fun t : ℝ => Real.exp (-T * t^2)) := integrable_exp_neg_mul_sq hT
  have hI0 : IntegrableOn (fun t : ℝ => Real.exp (-T * t^2)) (Ioi 0) := hf.integrableOn
  have hI1 : IntegrableOn (fun t : ℝ => Real.exp (-T * t^2)) (Ioi 1) := hf.integrableOn
  have hsplit := integral_interval_add_Ioi hI0 hI1
  rw [integral_gaussian_Ioi] at hsplit
  have hb : boys T 0 = ∫ t in (0:ℝ)..1, Real.exp (-T * t^2) := by
    unfold boys
    simp
  have htail : √(π / T) / 2 - boys T 0 = ∫ t in Ioi (1:ℝ), Real.exp (-T * t^2) := by
    rw [hb]; linarith
  rw [htail]
  refine ⟨setIntegral_nonneg measurableSet_Ioi (fun t _ => (Real.exp_pos _).le), ?_⟩
  rw [← integral_Ioi_one_mul_exp_neg_mul_sq hT]
  apply setIntegral_mono_on hI1 (integrable_mul_exp_neg_mul_sq hT).integrableOn measurableSet_Ioi
  intro t ht
  exact le_mul_of_one_le_left (Real.exp_pos _).le (le_of_lt ht)

/-- **The model's large-`T` branch**: for `T > 200`, `0 ≤ ½√(π/T) − F_0(T) < e^{-200}/400` -/
theorem boys_zero_asymptotic_model {T : ℝ} (hT : 200 < T) :
    0 ≤ √(π / T) / 2 - boys T 0 ∧ √(π / T) / 2 - boys T 0 < Real.exp (-200) / 400 := by
  have hT0 : 0 < T := by linarith
  obtain ⟨h0, h1⟩ := boys_zero_asymptotic hT0
  refine ⟨h0, h1.trans_lt ?_⟩
  have he : Real.exp (-T) < Real.exp (-200) := Real.exp_lt_exp.2 (by linarith)
  have hd : (400:ℝ) < 2 * T := by linarith
  calc Real.exp (-T) / (2 * T) < Real.exp (-200) / (2 * T) :=
        div_lt_div_of_pos_right he (by linarith)
    _ < Real.exp (-200) / 400 :=
        div_lt_div_of_pos_left (Real.exp_pos _) (by norm_num) hd

/-! ## 6. The accumulator loop of the model

`BF.boysSeries T m n k term acc` performs `n` steps `term ← term·2T/(2m+2k+3)`, `acc ← acc + term`,
`k ← k+1`; `BF.boysAll` calls it as `boysSeries T top 1200 0 t0 t0` with `t0 = 1/(2·top+1)`.
The real mirror below has the same recursion; started that way it returns the sum of the
`1201` terms `k = 0 … 1200`, which is the sum bounded in `boys_series_error_model`. -/

/-- real mirror of `BF.boysSeries` (same recursion, same argument order) -/
noncomputable def boysSeriesR (T : ℝ) (m : ℕ) : ℕ → ℕ → ℝ → ℝ → ℝ
  | 0, _, _, acc => acc
  | n+1, k, term, acc =>
    boysSeriesR T m n (k+1) (term * (2 * T) / ((2*m + 2*k + 3 : ℕ) : ℝ))
      (acc + term * (2 * T) / ((2*m + 2*k + 3 : ℕ) : ℝ))

theorem boysSeriesR_eq (T : ℝ) (m n k : ℕ) (acc : ℝ) :
    boysSeriesR T m n k (boysTerm T m k) acc
      = acc + ∑ j ∈ Finset.range n, boysTerm T m (k+1+j) := by
  induction n generalizing k acc with
  | zero => simp [boysSeriesR]
  | succ n ih =>
    have e : boysTerm T m k * (2 * T) / ((2*m + 2*k + 3 : ℕ) : ℝ) = boysTerm T m (k+1) := by
      rw [boysTerm_succ]; push_cast; ring
    rw [boysSeriesR, e, ih, Finset.sum_range_succ']
    have : ∀ j, boysTerm T m (k+1+1+j) = boysTerm T m (k+1+(j+1)) := by
      intro j; congr 1; omega
    simp only [this, add_zero]
    ring

theorem boysSeriesR_start (T : ℝ) (m n : ℕ) :
    boysSeriesR T m n 0 (1 / (2 * (m:ℝ) + 1)) (1 / (2 * (m:ℝ) + 1))
      = ∑ k ∈ Finset.range (n+1), boysTerm T m k := by
  have h := boysSeriesR_eq T m n 0 (1 / (2 * (m:ℝ) + 1))
  rw [boysTerm_zero] at h
  rw [h, Finset.sum_range_succ' _ n, boysTerm_zero, add_comm]
  have : ∀ j, boysTerm T m (0+1+j) = boysTerm T m (j+1) := by
    intro j; congr 1; omega
  simp only [this]

/-- the call made by `BF.boysAll` returns `Σ_{k=0}^{1200} term_k` -/
theorem boysSeriesR_model (T : ℝ) (m : ℕ) :
    boysSeriesR T m 1200 0 (1 / (2 * (m:ℝ) + 1)) (1 / (2 * (m:ℝ) + 1))
      = ∑ k ∈ Finset.range 1201, boysTerm T m k :=
  boysSeriesR_start T m 1200

/-- **top-order value of the `T ≤ 200` branch**: `e^{-T} · boysSeries T m 1200 0 t0 t0` (in exact
arithmetic) is within `10^{-416}` below `F_m(T)` -/
theorem boys_model_top {T : ℝ} (hT : 0 ≤ T) (hT' : T ≤ 200) (m : ℕ) :
    0 ≤ boys T m
        - Real.exp (-T) * boysSeriesR T m 1200 0 (1 / (2 * (m:ℝ) + 1)) (1 / (2 * (m:ℝ) + 1)) ∧
    boys T m - Real.exp (-T) * boysSeriesR T m 1200 0 (1 / (2 * (m:ℝ) + 1)) (1 / (2 * (m:ℝ) + 1))
      ≤ 1 / 10^416 := by
  rw [boysSeriesR_model]
  exact boys_series_error_model hT hT' m

end GB
