import GBProofs.PointChargeBlock
import Mathlib.Logic.Function.Iterate

/-!
# The electron-repulsion block is the contracted Rys form

Purely algebraic (any field of characteristic 0, arbitrary Boys tables).

* Step 1: `E4 AB CD E a b c d` — the closure of a two-index family `E a c` (the specification
  `Espec` of `[a 0|c 0]`) under the two horizontal (transfer) relations
  `g(a, b+e_u, c, d) = g(a+e_u, b, c, d) + AB_u g(a, b, c, d)` and
  `g(a, b, c, d+e_u) = g(a, b, c+e_u, d) + CD_u g(a, b, c, d)`.  It is defined by iterating six
  pairwise commuting shift operators, so both families of relations hold for all indices
  (`E4_horizAB`, `E4_horizCD`).  By the polynomial identities `(x-B) = (x-A) + (A-B)` and
  `(x-D) = (x-C) + (C-D)`, `E4` of the integral family `E a c = ∫∫ (r₁-A)^a (r₂-C)^c …` is the
  integral with all four polynomials `(r₁-A)^a (r₁-B)^b (r₂-C)^c (r₂-D)^d`; that (analytic)
  statement is not needed and not proved here.
* Step 2: `eriGeneral_eq_rys` — the whole code path of `eriGeneral` (vertical recursion, electron
  transfer, contraction, horizontal recursions `c → d` and `a → b`, selections, angular norms)
  computes the contracted Rys form `eriRys`.
* Step 3: `eriSSSS_eq_rys`, `eriBlock_eq_rys` — the all-s closed form and the dispatch.
-/
open Finset

namespace GB

/-! ## Step 1: closing a two-index family under the horizontal relations -/
section E4
variable {K : Type} [Field K]

/-- `a + e_u` (`u ≥ 2` is the z axis) -/
def bump : ℕ → Comp → Comp
  | 0, a => (a.1 + 1, a.2.1, a.2.2)
  | 1, a => (a.1, a.2.1 + 1, a.2.2)
  | _, a => (a.1, a.2.1, a.2.2 + 1)

lemma bump_comm (u v : ℕ) (a : Comp) : bump u (bump v a) = bump v (bump u a) := by
  rcases u with _ | _ | u <;> rcases v with _ | _ | v <;> rfl

/-- shift on the first index: `G ↦ (a, c ↦ G (a+e_u) c + k·G a c)` -/
def shiftA (u : ℕ) (k : K) (G : Comp → Comp → K) : Comp → Comp → K :=
  fun a c => G (bump u a) c + k * G a c

/-- shift on the second index: `G ↦ (a, c ↦ G a (c+e_u) + k·G a c)` -/
def shiftC (u : ℕ) (k : K) (G : Comp → Comp → K) : Comp → Comp → K :=
  fun a c => G a (bump u c) + k * G a c

lemma shiftA_comm (u v : ℕ) (k k' : K) : Function.Commute (shiftA u k) (shiftA v k') := by
  intro G; funext a c; simp only [shiftA, bump_comm u v]; ring

lemma shiftC_comm (u v : ℕ) (k k' : K) : Function.Commute (shiftC u k) (shiftC v k') := by
  intro G; funext a c; simp only [shiftC, bump_comm u v]; ring

lemma shiftA_shiftC_comm (u v : ℕ) (k k' : K) : Function.Commute (shiftA u k) (shiftC v k') := by
  intro G; funext a c; simp only [shiftA, shiftC]; ring

/-- **Four-index closure** of `E a c` under the horizontal relations:
`E4 a 0 c 0 = E a c`, each unit of `b_u` applies `shiftA u (AB u)`, each unit of `d_u` applies
`shiftC u (CD u)`. -/
def E4 (AB CD : ℕ → K) (E : Comp → Comp → K) (a b c d : Comp) : K :=
  ((shiftA 0 (AB 0))^[b.1] ((shiftA 1 (AB 1))^[b.2.1] ((shiftA 2 (AB 2))^[b.2.2]
    ((shiftC 0 (CD 0))^[d.1] ((shiftC 1 (CD 1))^[d.2.1] ((shiftC 2 (CD 2))^[d.2.2] E)))))) a c

variable (AB CD : ℕ → K) (E : Comp → Comp → K)

@[simp] theorem E4_zero (a c : Comp) : E4 AB CD E a (0,0,0) c (0,0,0) = E a c := rfl

/-- the relations that raise `b` hold for all `a b c d` -/
theorem E4_horizAB (c d : Comp) : HorizRel AB (fun a b => E4 AB CD E a b c d) where
  x := by
    intro ax ay az bx by' bz
    simp only [E4, Function.iterate_succ_apply']
    rfl
  y := by
    intro ax ay az bx by' bz
    simp only [E4, Function.iterate_succ_apply']
    rw [((shiftA_comm 0 1 (AB 0) (AB 1)).iterate_left bx).eq]
    rfl
  z := by
    intro ax ay az bx by' bz
    simp only [E4, Function.iterate_succ_apply']
    rw [((shiftA_comm 1 2 (AB 1) (AB 2)).iterate_left by').eq,
      ((shiftA_comm 0 2 (AB 0) (AB 2)).iterate_left bx).eq]
    rfl

/-- the relations that raise `d` hold for all `a b c d` (the shifts on `c` commute with those on
`a`) -/
theorem E4_horizCD (a b : Comp) : HorizRel CD (fun c d => E4 AB CD E a b c d) where
  x := by
    intro cx cy cz dx dy dz
    simp only [E4, Function.iterate_succ_apply']
    rw [((shiftA_shiftC_comm 2 0 (AB 2) (CD 0)).iterate_left b.2.2).eq,
      ((shiftA_shiftC_comm 1 0 (AB 1) (CD 0)).iterate_left b.2.1).eq,
      ((shiftA_shiftC_comm 0 0 (AB 0) (CD 0)).iterate_left b.1).eq]
    rfl
  y := by
    intro cx cy cz dx dy dz
    simp only [E4, Function.iterate_succ_apply']
    rw [((shiftC_comm 0 1 (CD 0) (CD 1)).iterate_left dx).eq,
      ((shiftA_shiftC_comm 2 1 (AB 2) (CD 1)).iterate_left b.2.2).eq,
      ((shiftA_shiftC_comm 1 1 (AB 1) (CD 1)).iterate_left b.2.1).eq,
      ((shiftA_shiftC_comm 0 1 (AB 0) (CD 1)).iterate_left b.1).eq]
    rfl
  z := by
    intro cx cy cz dx dy dz
    simp only [E4, Function.iterate_succ_apply']
    rw [((shiftC_comm 1 2 (CD 1) (CD 2)).iterate_left dy).eq,
      ((shiftC_comm 0 2 (CD 0) (CD 2)).iterate_left dx).eq,
      ((shiftA_shiftC_comm 2 2 (AB 2) (CD 2)).iterate_left b.2.2).eq,
      ((shiftA_shiftC_comm 1 2 (AB 1) (CD 2)).iterate_left b.2.1).eq,
      ((shiftA_shiftC_comm 0 2 (AB 0) (CD 2)).iterate_left b.1).eq]
    rfl

end E4

/-! ## Step 2: `eriGeneral` -/
section Spec
variable {K : Type} [Field K]

theorem HorizRel.sum' {ι : Type} (AB : ℕ → K) (s : Finset ι)
    (g : ι → ℕ × ℕ × ℕ → ℕ × ℕ × ℕ → K) (hg : ∀ i ∈ s, HorizRel AB (g i)) :
    HorizRel AB (fun a b => ∑ i ∈ s, g i a b) := by
  have h := HorizRel.sum AB s (fun _ => 1) g hg
  simpa only [one_mul] using h

/-- reordering of the four primitive sums from the order of the code's contraction (`d, b, c, a`
from the outside) to the natural one -/
theorem sum4_reorder (A B C D : Finset ℕ) (f : ℕ → ℕ → ℕ → ℕ → K) :
    ∑ kd ∈ D, ∑ kb ∈ B, ∑ kc ∈ C, ∑ ka ∈ A, f ka kb kc kd
      = ∑ ka ∈ A, ∑ kb ∈ B, ∑ kc ∈ C, ∑ kd ∈ D, f ka kb kc kd := by
  rw [Finset.sum_comm]
  have h1 : ∀ kb ∈ B, ∑ kd ∈ D, ∑ kc ∈ C, ∑ ka ∈ A, f ka kb kc kd
      = ∑ ka ∈ A, ∑ kc ∈ C, ∑ kd ∈ D, f ka kb kc kd := by
    intro kb _
    rw [Finset.sum_congr rfl (fun kd _ => Finset.sum_comm), Finset.sum_comm]
    exact Finset.sum_congr rfl fun ka _ => Finset.sum_comm
  rw [Finset.sum_congr rfl h1, Finset.sum_comm]

variable (e sq : K → K) (pi : K)

/-- **Rys form of one primitive quartet** with exponents `α β γ δ` on centres `A B C D`:
`2π^{5/2}/(pq√(p+q)) e^{-(αβ/p)|AB|²} e^{-(γδ/q)|CD|²} ·
   E4 (A-B) (C-D) (Espec (Fb (ρ|PQ|²)) p q (ρ/p) (ρ/q) (P-A) (Q-C) (P-Q) 0) a b c d`,
`p = α+β`, `q = γ+δ`, `ρ = pq/(p+q)`, `P = (αA+βB)/p`, `Q = (γC+δD)/q`. -/
noncomputable def eriQuartet (Fb : K → ℕ → K) (α β γ δ : K) (A B C D : ℕ → K)
    (a b c d : Comp) : K :=
  2 * (pi * pi * sq pi) / ((α + β) * (γ + δ) * sq ((α + β) + (γ + δ)))
    * e (-(α * β / (α + β) * ∑ i ∈ range 3, (A i - B i) * (A i - B i)))
    * e (-(γ * δ / (γ + δ) * ∑ i ∈ range 3, (C i - D i) * (C i - D i)))
    * E4 (fun i => A i - B i) (fun i => C i - D i)
        (Espec
          (Fb ((α + β) * (γ + δ) / ((α + β) + (γ + δ)) * ∑ i ∈ range 3,
            ((α * A i + β * B i) / (α + β) - (γ * C i + δ * D i) / (γ + δ))
              * ((α * A i + β * B i) / (α + β) - (γ * C i + δ * D i) / (γ + δ))))
          (α + β) (γ + δ)
          ((α + β) * (γ + δ) / ((α + β) + (γ + δ)) / (α + β))
          ((α + β) * (γ + δ) / ((α + β) + (γ + δ)) / (γ + δ))
          (fun i => (α * A i + β * B i) / (α + β) - A i)
          (fun i => (γ * C i + δ * D i) / (γ + δ) - C i)
          (fun i => (α * A i + β * B i) / (α + β) - (γ * C i + δ * D i) / (γ + δ)) 0)
        a b c d

/-- the quartet of primitives `ka kb kc kd` of four shells -/
noncomputable def eriPrim (Fb : K → ℕ → K) (sa sb sc sd : Shell K) (ka kb kc kd : ℕ)
    (a b c d : Comp) : K :=
  letI := fieldTransc e sq pi
  eriQuartet e sq pi Fb (sa.exp! ka) (sb.exp! kb) (sc.exp! kc) (sd.exp! kd)
    sa.ctr sb.ctr sc.ctr sd.ctr a b c d

/-- the contracted four-index family (before the angular norms) -/
noncomputable def eriContr (Fb : K → ℕ → K) (sa sb sc sd : Shell K) (ma mb mc md : ℕ)
    (a b c d : Comp) : K :=
  letI := fieldTransc e sq pi
  ∑ ka ∈ range sa.nprim, ∑ kb ∈ range sb.nprim, ∑ kc ∈ range sc.nprim, ∑ kd ∈ range sd.nprim,
    (sa.coef! ka ma * normRad (sa.exp! ka) sa.l * (sb.coef! kb mb * normRad (sb.exp! kb) sb.l)
      * (sc.coef! kc mc * normRad (sc.exp! kc) sc.l) * (sd.coef! kd md * normRad (sd.exp! kd) sd.l))
    * eriPrim e sq pi Fb sa sb sc sd ka kb kc kd a b c d

/-- **Contracted Rys form** of the entry `[ma][ca][mb][cb][mc][cc][md][cd]` of `(ab|cd)` -/
noncomputable def eriRys (Fb : K → ℕ → K) (sa sb sc sd : Shell K)
    (ma ca mb cb mc cc md cd : ℕ) : K :=
  letI := fieldTransc e sq pi
  eriContr e sq pi Fb sa sb sc sd ma mb mc md (sa.comp! ca) (sb.comp! cb) (sc.comp! cc)
      (sd.comp! cd)
    * normAng (sa.comp! ca) * normAng (sb.comp! cb) * normAng (sc.comp! cc) * normAng (sd.comp! cd)

theorem horizAB_eriQuartet (Fb : K → ℕ → K) (α β γ δ : K) (A B C D : ℕ → K) (c d : Comp) :
    HorizRel (fun i => A i - B i) (fun a b => eriQuartet e sq pi Fb α β γ δ A B C D a b c d) :=
  HorizRel.smul _ _ _ (E4_horizAB _ _ _ c d)

theorem horizCD_eriQuartet (Fb : K → ℕ → K) (α β γ δ : K) (A B C D : ℕ → K) (a b : Comp) :
    HorizRel (fun i => C i - D i) (fun c d => eriQuartet e sq pi Fb α β γ δ A B C D a b c d) :=
  HorizRel.smul _ _ _ (E4_horizCD _ _ _ a b)

/-- the contracted family satisfies the `a → b` relations with `AB = A - B` -/
theorem horizAB_eriContr (Fb : K → ℕ → K) (sa sb sc sd : Shell K) (ma mb mc md : ℕ) (c d : Comp) :
    HorizRel (fun i => sa.ctr i - sb.ctr i)
      (fun a b => eriContr e sq pi Fb sa sb sc sd ma mb mc md a b c d) := by
  unfold eriContr
  refine HorizRel.sum' _ _ _ fun ka _ => HorizRel.sum' _ _ _ fun kb _ =>
    HorizRel.sum' _ _ _ fun kc _ => HorizRel.sum' _ _ _ fun kd _ => HorizRel.smul _ _ _ ?_
  exact horizAB_eriQuartet e sq pi Fb _ _ _ _ _ _ _ _ c d

/-- the contracted family satisfies the `c → d` relations with `CD = C - D` -/
theorem horizCD_eriContr (Fb : K → ℕ → K) (sa sb sc sd : Shell K) (ma mb mc md : ℕ) (a b : Comp) :
    HorizRel (fun i => sc.ctr i - sd.ctr i)
      (fun c d => eriContr e sq pi Fb sa sb sc sd ma mb mc md a b c d) := by
  unfold eriContr
  refine HorizRel.sum' _ _ _ fun ka _ => HorizRel.sum' _ _ _ fun kb _ =>
    HorizRel.sum' _ _ _ fun kc _ => HorizRel.sum' _ _ _ fun kd _ => HorizRel.smul _ _ _ ?_
  exact horizCD_eriQuartet e sq pi Fb _ _ _ _ _ _ _ _ a b

/-- prefactor and Boys argument of `eriBase`, spelled with `Finset` sums -/
theorem eriBase_eq (α β γ δ : K) (A B C D : ℕ → K) :
    letI := fieldTransc e sq pi
    eriBase α β γ δ A B C D
      = (2 * (pi * pi * sq pi) / ((α + β) * (γ + δ) * sq ((α + β) + (γ + δ)))
          * e (-(α * β / (α + β) * ∑ i ∈ range 3, (A i - B i) * (A i - B i)))
          * e (-(γ * δ / (γ + δ) * ∑ i ∈ range 3, (C i - D i) * (C i - D i))),
        (α + β) * (γ + δ) / ((α + β) + (γ + δ)) * ∑ i ∈ range 3,
            ((α * A i + β * B i) / (α + β) - (γ * C i + δ * D i) / (γ + δ))
              * ((α * A i + β * B i) / (α + β) - (γ * C i + δ * D i) / (γ + δ))) := by
  simp only [eriBase, sumN_eq_sum, num_nat, Nat.cast_ofNat]
  rfl

end Spec

section Quartet
variable {K : Type} [Field K] [CharZero K]

/-- **One primitive quartet**: the table `etransf ∘ vert2` as `eriGeneral` builds it (parameters
spelled as after unfolding the model) is `pref · Espec` wherever `|a| + |c| < mMax`. -/
theorem eriQuartetTab_eq (Ftab : Tab K) (Fb' : ℕ → K) (α β γ δ : K) (A B C D : ℕ → K) (pref : K)
    (mMax lcd : ℕ) (hF : ∀ m, m < mMax → Ftab.get m = Fb' m)
    (hp : α + β ≠ 0) (hq : γ + δ ≠ 0) (hpq : (α + β) + (γ + δ) ≠ 0)
    (cz cy cx ax ay az : ℕ) (hm : ax + ay + az + cx + cy + cz < mMax) :
    ((etransf
        (fun i => (γ * C i + δ * D i) / (γ + δ) - C i
          + (α + β) / (γ + δ) * ((α * A i + β * B i) / (α + β) - A i))
        ((α + β) / (γ + δ)) (Num.nat 1 / (Num.nat 2 * (γ + δ))) mMax lcd
        (tab mMax fun ax => tab (mMax - ax) fun ay => tab (mMax - ax - ay) fun az =>
          (vert2 (fun i => (α * A i + β * B i) / (α + β) - A i)
            (fun i => (α + β) * (γ + δ) / ((α + β) + (γ + δ)) / (α + β)
              * ((α * A i + β * B i) / (α + β) - (γ * C i + δ * D i) / (γ + δ)))
            (Num.nat 1 / (Num.nat 2 * (α + β)))
            ((α + β) * (γ + δ) / ((α + β) + (γ + δ)) / (α + β)) mMax
            (fun m => pref * Ftab.get m)).get4 az ay ax 0)).get3 cz cy cx).get3 ax ay az
      = pref * Espec Fb' (α + β) (γ + δ)
          ((α + β) * (γ + δ) / ((α + β) + (γ + δ)) / (α + β))
          ((α + β) * (γ + δ) / ((α + β) + (γ + δ)) / (γ + δ))
          (fun i => (α * A i + β * B i) / (α + β) - A i)
          (fun i => (γ * C i + δ * D i) / (γ + δ) - C i)
          (fun i => (α * A i + β * B i) / (α + β) - (γ * C i + δ * D i) / (γ + δ)) 0
          (ax, ay, az) (cx, cy, cz) := by
  refine etransf_vert2_eq_Espec Fb' (α + β) (γ + δ) _ _ pref _ _
    (fun i => (α * A i + β * B i) / (α + β) - (γ * C i + δ * D i) / (γ + δ))
    hp hq hpq ?_ ?_ mMax lcd (fun m => pref * Ftab.get m) (fun m hm => by rw [hF m hm]) _ ?_
    cz cy cx ax ay az hm
  · field_simp
  · field_simp
  · intro ax ay az _
    simp only [get3_tab, get2_tab, tab_get]

end Quartet

section Main
variable {K : Type} [Field K] [CharZero K] (e sq : K → K) (pi : K)

/-- **Step 2.**  For an arbitrary table-valued `boys` whose first `l_a+l_b+l_c+l_d+1` entries are
`Fb T m`, non-vanishing `p`, `q`, `p+q` for all primitive quartets, every entry of `eriGeneral`
whose four components have total degrees within the shells' angular momenta is the contracted Rys
form. -/
theorem eriGeneral_eq_rys (boys : K → ℕ → Tab K) (Fb : K → ℕ → K) (sa sb sc sd : Shell K)
    (ma ca mb cb mc cc md cd : ℕ) :
    letI := fieldTransc e sq pi
    (∀ T m, m < sa.l + sb.l + sc.l + sd.l + 1 →
      (boys T (sa.l + sb.l + sc.l + sd.l + 1)).get m = Fb T m) →
    (∀ ka kb, ka < sa.nprim → kb < sb.nprim → sa.exp! ka + sb.exp! kb ≠ 0) →
    (∀ kc kd, kc < sc.nprim → kd < sd.nprim → sc.exp! kc + sd.exp! kd ≠ 0) →
    (∀ ka kb kc kd, ka < sa.nprim → kb < sb.nprim → kc < sc.nprim → kd < sd.nprim →
      (sa.exp! ka + sb.exp! kb) + (sc.exp! kc + sd.exp! kd) ≠ 0) →
    (sa.comp! ca).1 + (sa.comp! ca).2.1 + (sa.comp! ca).2.2 ≤ sa.l →
    (sb.comp! cb).1 + (sb.comp! cb).2.1 + (sb.comp! cb).2.2 ≤ sb.l →
    (sc.comp! cc).1 + (sc.comp! cc).2.1 + (sc.comp! cc).2.2 ≤ sc.l →
    (sd.comp! cd).1 + (sd.comp! cd).2.1 + (sd.comp! cd).2.2 ≤ sd.l →
    (eriGeneral boys sa sb sc sd).get8 ma ca mb cb mc cc md cd
      = eriRys e sq pi Fb sa sb sc sd ma ca mb cb mc cc md cd := by
  let _ := fieldTransc e sq pi
  intro hF hp hq hpq ha hb hc hd
  simp only [eriGeneral, Tab.get8, tab4_get, tab2_get, tab_get, get3_tab, get2_tab]
  rw [horiz3_get_guard (horizAB_eriContr e sq pi Fb sa sb sc sd ma mb mc md
    (sc.comp! cc) (sd.comp! cd))]
  · rfl
  · intro ax ay az hlt
    rw [horiz3_get_guard (horizCD_eriContr e sq pi Fb sa sb sc sd ma mb mc md (ax, ay, az) (0,0,0))]
    · intro cx cy cz hlt2
      simp only [sumN_eq_sum, Finset.sum_mul]
      rw [sum4_reorder]
      unfold eriContr
      refine Finset.sum_congr rfl fun ka hka => Finset.sum_congr rfl fun kb hkb =>
        Finset.sum_congr rfl fun kc hkc => Finset.sum_congr rfl fun kd hkd => ?_
      have hka' := Finset.mem_range.mp hka
      have hkb' := Finset.mem_range.mp hkb
      have hkc' := Finset.mem_range.mp hkc
      have hkd' := Finset.mem_range.mp hkd
      rw [eriQuartetTab_eq (Fb' := Fb _) (hF := fun m hm => hF _ m hm) (hp := hp ka kb hka' hkb')
        (hq := hq kc kd hkc' hkd') (hpq := hpq ka kb kc kd hka' hkb' hkc' hkd') (hm := by omega)]
      simp only [eriPrim, eriQuartet, E4_zero, eriBase_eq e sq pi]
      ring
    · omega
  · omega

end Main

/-! ## Step 3: the all-s closed form and the dispatch -/
section SSSS
variable {K : Type} [Field K] (e sq : K → K) (pi : K)

lemma comp_eq_zero_of_le {x : Comp} {l : ℕ} (h : x.1 + x.2.1 + x.2.2 ≤ l) (hl : l = 0) :
    x = (0,0,0) :=
  Prod.ext (by simp only; omega) (Prod.ext (by simp only; omega) (by simp only; omega))

/-- `eriSSSS` is the contracted Rys form at `l = 0`.  The closed form carries no angular norm,
`normAng (0,0,0) = 1/sqrt 1`, hence the hypothesis `sq 1 = 1` on the interpretation of `sqrt`. -/
theorem eriSSSS_eq_rys (boys : K → ℕ → Tab K) (Fb : K → ℕ → K) (sa sb sc sd : Shell K)
    (ma ca mb cb mc cc md cd : ℕ) :
    letI := fieldTransc e sq pi
    sq 1 = 1 → sa.l = 0 → sb.l = 0 → sc.l = 0 → sd.l = 0 →
    (∀ T, (boys T 1).get 0 = Fb T 0) →
    sa.comp! ca = (0,0,0) → sb.comp! cb = (0,0,0) → sc.comp! cc = (0,0,0) →
    sd.comp! cd = (0,0,0) →
    (eriSSSS boys sa sb sc sd).get4 ma mb mc md
      = eriRys e sq pi Fb sa sb sc sd ma ca mb cb mc cc md cd := by
  let _ := fieldTransc e sq pi
  intro hsq la lb lc ld hF hca hcb hcc hcd
  have hN : normAng (K := K) (0,0,0) = 1 := by
    simp [normAng, dfactOdd]
    exact hsq
  simp only [eriSSSS, tab4_get, tab_get, sumN_eq_sum]
  unfold eriRys eriContr
  rw [hca, hcb, hcc, hcd, la, lb, lc, ld, hN]
  simp only [mul_one]
  refine Finset.sum_congr rfl fun ka _ => Finset.sum_congr rfl fun kb _ =>
    Finset.sum_congr rfl fun kc _ => Finset.sum_congr rfl fun kd _ => ?_
  simp only [eriPrim, eriQuartet, E4_zero, eriBase_eq e sq pi, Espec_c0, Vspec2_zero, hF]
  ring

end SSSS

section Block
variable {K : Type} [Field K] [CharZero K] (e sq : K → K) (pi : K)

/-- **`eriBlock`** (dispatch between the closed form for four s shells and the general code path)
computes the contracted Rys form. -/
theorem eriBlock_eq_rys (boys : K → ℕ → Tab K) (Fb : K → ℕ → K) (sa sb sc sd : Shell K)
    (ma ca mb cb mc cc md cd : ℕ) :
    letI := fieldTransc e sq pi
    sq 1 = 1 →
    (∀ T m, m < sa.l + sb.l + sc.l + sd.l + 1 →
      (boys T (sa.l + sb.l + sc.l + sd.l + 1)).get m = Fb T m) →
    (∀ ka kb, ka < sa.nprim → kb < sb.nprim → sa.exp! ka + sb.exp! kb ≠ 0) →
    (∀ kc kd, kc < sc.nprim → kd < sd.nprim → sc.exp! kc + sd.exp! kd ≠ 0) →
    (∀ ka kb kc kd, ka < sa.nprim → kb < sb.nprim → kc < sc.nprim → kd < sd.nprim →
      (sa.exp! ka + sb.exp! kb) + (sc.exp! kc + sd.exp! kd) ≠ 0) →
    (sa.comp! ca).1 + (sa.comp! ca).2.1 + (sa.comp! ca).2.2 ≤ sa.l →
    (sb.comp! cb).1 + (sb.comp! cb).2.1 + (sb.comp! cb).2.2 ≤ sb.l →
    (sc.comp! cc).1 + (sc.comp! cc).2.1 + (sc.comp! cc).2.2 ≤ sc.l →
    (sd.comp! cd).1 + (sd.comp! cd).2.1 + (sd.comp! cd).2.2 ≤ sd.l →
    (eriBlock boys sa sb sc sd).get8 ma ca mb cb mc cc md cd
      = eriRys e sq pi Fb sa sb sc sd ma ca mb cb mc cc md cd := by
  intro hsq hF hp hq hpq ha hb hc hd
  unfold eriBlock
  split
  · rename_i h
    simp only [Bool.and_eq_true, beq_iff_eq] at h
    obtain ⟨⟨⟨la, lb⟩, lc⟩, ld⟩ := h
    simp only [Tab.get8, tab4_get]
    refine eriSSSS_eq_rys e sq pi boys Fb sa sb sc sd ma ca mb cb mc cc md cd hsq la lb lc ld ?_
      (comp_eq_zero_of_le ha la) (comp_eq_zero_of_le hb lb) (comp_eq_zero_of_le hc lc)
      (comp_eq_zero_of_le hd ld)
    intro T
    have := hF T 0 (by omega)
    rwa [la, lb, lc, ld] at this
  · exact eriGeneral_eq_rys e sq pi boys Fb sa sb sc sd ma ca mb cb mc cc md cd hF hp hq hpq
      ha hb hc hd

/-- the statement with the table entries themselves as the sequence `F` -/
theorem eriBlock_eq_rys_self (boys : K → ℕ → Tab K) (sa sb sc sd : Shell K)
    (ma ca mb cb mc cc md cd : ℕ) :
    letI := fieldTransc e sq pi
    sq 1 = 1 →
    (∀ ka kb, ka < sa.nprim → kb < sb.nprim → sa.exp! ka + sb.exp! kb ≠ 0) →
    (∀ kc kd, kc < sc.nprim → kd < sd.nprim → sc.exp! kc + sd.exp! kd ≠ 0) →
    (∀ ka kb kc kd, ka < sa.nprim → kb < sb.nprim → kc < sc.nprim → kd < sd.nprim →
      (sa.exp! ka + sb.exp! kb) + (sc.exp! kc + sd.exp! kd) ≠ 0) →
    (sa.comp! ca).1 + (sa.comp! ca).2.1 + (sa.comp! ca).2.2 ≤ sa.l →
    (sb.comp! cb).1 + (sb.comp! cb).2.1 + (sb.comp! cb).2.2 ≤ sb.l →
    (sc.comp! cc).1 + (sc.comp! cc).2.1 + (sc.comp! cc).2.2 ≤ sc.l →
    (sd.comp! cd).1 + (sd.comp! cd).2.1 + (sd.comp! cd).2.2 ≤ sd.l →
    (eriBlock boys sa sb sc sd).get8 ma ca mb cb mc cc md cd
      = eriRys e sq pi (fun T m => (boys T (sa.l + sb.l + sc.l + sd.l + 1)).get m)
          sa sb sc sd ma ca mb cb mc cc md cd :=
  fun hsq => eriBlock_eq_rys e sq pi boys _ sa sb sc sd ma ca mb cb mc cc md cd hsq
    (fun _ _ _ => rfl)

end Block

end GB

