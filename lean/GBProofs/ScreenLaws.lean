import Mathlib.Analysis.SpecialFunctions.Log.Basic
import Mathlib.Analysis.SpecialFunctions.Pow.Real
import Mathlib.Analysis.SpecialFunctions.Sqrt
import Mathlib.Algebra.BigOperators.Ring.Finset
import Mathlib.Algebra.Order.BigOperators.Ring.Finset
import Mathlib.Algebra.Order.BigOperators.Group.Finset
import Mathlib.Tactic.Linarith
import Mathlib.Tactic.Positivity
import Mathlib.Tactic.FieldSimp
import Mathlib.Tactic.Ring

/-!
# Overlap screening

The documented rule of `gbasis.integrals.overlap.is_integral_screened`: with `αa`, `αb` the
smallest exponents of the two shells and `d` the distance of their centres, the pair is left out iff

`d > cutoff = √( -(αa + αb)/(αa αb) · log tol )`.

* `screened_iff_exp` : the rule says exactly `exp(-μ d²) < tol`, `μ = αa αb/(αa + αb)`;
* `screened_mono` : a larger tolerance screens at least the pairs a smaller one screens
  (lowering the tolerance never removes more blocks);
* `cutoff_tol_one`, `screened_tol_one` : `tol = 1` gives cutoff 0, every pair of distinct centres is
  screened;
* `screen_conservative_prim` : for a screened pair the *normalised* overlap of any two s-type
  primitives with exponents `α ≥ αa`, `β ≥ αb` is below `tol`;
* `screen_conservative_le`, `screen_conservative` : hence the overlap of two contracted s-type
  functions `Σ_k c_k n_k g_k` is bounded in absolute value by
  `tol · (Σ_k |c_k| n_k)(Σ_l |c'_l| n'_l)` (strictly if that product is not zero).

The conservativeness statements are for s-type primitives (the quantity the cutoff formula is
derived from); nothing is claimed for the polynomial prefactors of higher angular momenta.
-/
namespace GB

open Real

/-- cutoff distance of `is_integral_screened` -/
noncomputable def cutoff (αa αb tol : ℝ) : ℝ := Real.sqrt (-(αa + αb) / (αa * αb) * Real.log tol)

/-- the pair is screened (its block is not computed) -/
def screened (αa αb d tol : ℝ) : Prop := d > cutoff αa αb tol

/-- the argument of the square root is non-negative for `0 < tol ≤ 1` -/
theorem cutoff_arg_nonneg (αa αb tol : ℝ) (ha : 0 < αa) (hb : 0 < αb) (ht0 : 0 < tol) (ht1 : tol ≤ 1) :
    0 ≤ -(αa + αb) / (αa * αb) * Real.log tol := by
  have h1 : -(αa + αb) / (αa * αb) ≤ 0 :=
    div_nonpos_of_nonpos_of_nonneg (by linarith) (mul_pos ha hb).le
  exact mul_nonneg_of_nonpos_of_nonpos h1 (Real.log_nonpos ht0.le ht1)

/-- **The rule is the Gaussian-product estimate**: screened iff `e^{-μ d²} < tol`. -/
theorem screened_iff_exp (αa αb d tol : ℝ) (ha : 0 < αa) (hb : 0 < αb) (hd : 0 ≤ d)
    (ht0 : 0 < tol) (ht1 : tol < 1) :
    screened αa αb d tol ↔ Real.exp (-(αa * αb / (αa + αb)) * d ^ 2) < tol := by
  unfold screened cutoff
  have hab : 0 < αa * αb := mul_pos ha hb
  have hs : 0 < αa + αb := add_pos ha hb
  rw [gt_iff_lt, Real.sqrt_lt (cutoff_arg_nonneg αa αb tol ha hb ht0 ht1.le) hd,
    ← Real.lt_log_iff_exp_lt ht0]
  have hμ : 0 < αa * αb / (αa + αb) := div_pos hab hs
  have e : -(αa + αb) / (αa * αb) * Real.log tol
      = (-Real.log tol) / (αa * αb / (αa + αb)) := by
    field_simp
  rw [e, div_lt_iff₀ hμ]
  constructor <;> intro h <;> nlinarith

/-- the cutoff decreases when the tolerance increases -/
theorem cutoff_anti (αa αb tol tol' : ℝ) (ha : 0 < αa) (hb : 0 < αb) (ht' : 0 < tol')
    (hle : tol' ≤ tol) : cutoff αa αb tol ≤ cutoff αa αb tol' := by
  unfold cutoff
  apply Real.sqrt_le_sqrt
  have h1 : -(αa + αb) / (αa * αb) ≤ 0 :=
    div_nonpos_of_nonpos_of_nonneg (by linarith) (mul_pos ha hb).le
  exact mul_le_mul_of_nonpos_left (Real.log_le_log ht' hle) h1

/-- **Monotonicity in the tolerance**: whatever is screened at the smaller tolerance `tol'` is
screened at the larger tolerance `tol`; equivalently, lowering the tolerance never removes more
blocks. -/
theorem screened_mono (αa αb d tol tol' : ℝ) (ha : 0 < αa) (hb : 0 < αb) (ht' : 0 < tol')
    (hle : tol' ≤ tol) (h : screened αa αb d tol') : screened αa αb d tol :=
  lt_of_le_of_lt (cutoff_anti αa αb tol tol' ha hb ht' hle) h

/-- at `tol = 1` the cutoff is 0 -/
theorem cutoff_tol_one (αa αb : ℝ) : cutoff αa αb 1 = 0 := by
  simp [cutoff]

/-- at `tol = 1` every pair with distinct centres is screened -/
theorem screened_tol_one (αa αb d : ℝ) : screened αa αb d 1 ↔ 0 < d := by
  unfold screened
  rw [cutoff_tol_one]

/-! ## Conservativeness for s-type functions -/

/-- overlap of two *normalised* s-type primitives with exponents `α`, `β` at distance `d`:
`(2√(αβ)/(α+β))^{3/2} · e^{-αβ/(α+β) d²}` -/
noncomputable def sOverlap (α β d : ℝ) : ℝ :=
  (2 * Real.sqrt (α * β) / (α + β)) ^ ((3:ℝ)/2) * Real.exp (-(α * β / (α + β)) * d ^ 2)

/-- AM–GM: `2√(αβ) ≤ α + β` -/
theorem two_sqrt_mul_le_add (α β : ℝ) (ha : 0 ≤ α) (hb : 0 ≤ β) :
    2 * Real.sqrt (α * β) ≤ α + β := by
  have h : Real.sqrt (α * β) ≤ (α + β) / 2 := by
    rw [Real.sqrt_le_iff]
    refine ⟨by linarith, ?_⟩
    nlinarith [sq_nonneg (α - β)]
  linarith

/-- the reduced exponent `αβ/(α+β)` is monotone in both arguments -/
theorem reduced_exp_mono (αa αb α β : ℝ) (ha : 0 < αa) (hb : 0 < αb) (hα : αa ≤ α) (hβ : αb ≤ β) :
    αa * αb / (αa + αb) ≤ α * β / (α + β) := by
  have hα0 : 0 < α := lt_of_lt_of_le ha hα
  have hβ0 : 0 < β := lt_of_lt_of_le hb hβ
  rw [div_le_div_iff₀ (add_pos ha hb) (add_pos hα0 hβ0)]
  have h1 : 0 ≤ α * αa * (β - αb) := mul_nonneg (mul_nonneg hα0.le ha.le) (by linarith)
  have h2 : 0 ≤ β * αb * (α - αa) := mul_nonneg (mul_nonneg hβ0.le hb.le) (by linarith)
  nlinarith

theorem sOverlap_nonneg (α β d : ℝ) (ha : 0 ≤ α) (hb : 0 ≤ β) : 0 ≤ sOverlap α β d := by
  unfold sOverlap
  have : 0 ≤ 2 * Real.sqrt (α * β) / (α + β) :=
    div_nonneg (mul_nonneg (by norm_num) (Real.sqrt_nonneg _)) (add_nonneg ha hb)
  exact mul_nonneg (Real.rpow_nonneg this _) (Real.exp_pos _).le

/-- **Screening is conservative for primitives**: if the pair is screened on the basis of the
smallest exponents `αa`, `αb`, the normalised overlap of s-type primitives with any exponents
`α ≥ αa`, `β ≥ αb` is below the tolerance. -/
theorem screen_conservative_prim (αa αb α β d tol : ℝ) (ha : 0 < αa) (hb : 0 < αb)
    (hα : αa ≤ α) (hβ : αb ≤ β) (hd : 0 ≤ d) (ht0 : 0 < tol) (ht1 : tol < 1)
    (h : screened αa αb d tol) : sOverlap α β d < tol := by
  have hα0 : 0 < α := lt_of_lt_of_le ha hα
  have hβ0 : 0 < β := lt_of_lt_of_le hb hβ
  have hs : 0 < α + β := add_pos hα0 hβ0
  have h1 : Real.exp (-(αa * αb / (αa + αb)) * d ^ 2) < tol :=
    (screened_iff_exp αa αb d tol ha hb hd ht0 ht1).mp h
  have h2 : Real.exp (-(α * β / (α + β)) * d ^ 2) ≤ Real.exp (-(αa * αb / (αa + αb)) * d ^ 2) := by
    apply Real.exp_le_exp.mpr
    have := reduced_exp_mono αa αb α β ha hb hα hβ
    nlinarith [sq_nonneg d]
  have h3 : 0 ≤ 2 * Real.sqrt (α * β) / (α + β) :=
    div_nonneg (mul_nonneg (by norm_num) (Real.sqrt_nonneg _)) hs.le
  have h4 : 2 * Real.sqrt (α * β) / (α + β) ≤ 1 := by
    rw [div_le_one hs]
    exact two_sqrt_mul_le_add α β hα0.le hβ0.le
  have h5 : (2 * Real.sqrt (α * β) / (α + β)) ^ ((3:ℝ)/2) ≤ 1 :=
    Real.rpow_le_one h3 h4 (by norm_num)
  have h6 : 0 ≤ (2 * Real.sqrt (α * β) / (α + β)) ^ ((3:ℝ)/2) := Real.rpow_nonneg h3 _
  unfold sOverlap
  calc (2 * Real.sqrt (α * β) / (α + β)) ^ ((3:ℝ)/2) * Real.exp (-(α * β / (α + β)) * d ^ 2)
      ≤ 1 * Real.exp (-(α * β / (α + β)) * d ^ 2) :=
        mul_le_mul_of_nonneg_right h5 (Real.exp_pos _).le
    _ = Real.exp (-(α * β / (α + β)) * d ^ 2) := one_mul _
    _ ≤ Real.exp (-(αa * αb / (αa + αb)) * d ^ 2) := h2
    _ < tol := h1

section Sums
variable {ι κ : Type} (s : Finset ι) (t : Finset κ)

/-- a double sum of products bounded termwise: `|Σ_kl c_k c'_l n_k n'_l O_kl| ≤ T (Σ|c_k| n_k)(Σ|c'_l| n'_l)`
when `0 ≤ O_kl ≤ T` and the norms `n`, `n'` are non-negative -/
theorem abs_double_sum_le (c n : ι → ℝ) (c' n' : κ → ℝ) (O : ι → κ → ℝ) (T : ℝ)
    (hn : ∀ k ∈ s, 0 ≤ n k) (hn' : ∀ l ∈ t, 0 ≤ n' l)
    (hO0 : ∀ k ∈ s, ∀ l ∈ t, 0 ≤ O k l) (hO : ∀ k ∈ s, ∀ l ∈ t, O k l ≤ T) :
    |∑ k ∈ s, ∑ l ∈ t, c k * n k * (c' l * n' l) * O k l|
      ≤ T * ((∑ k ∈ s, |c k| * n k) * (∑ l ∈ t, |c' l| * n' l)) := by
  rw [Finset.sum_mul_sum, Finset.mul_sum]
  refine (Finset.abs_sum_le_sum_abs _ _).trans (Finset.sum_le_sum fun k hk => ?_)
  rw [Finset.mul_sum]
  refine (Finset.abs_sum_le_sum_abs _ _).trans (Finset.sum_le_sum fun l hl => ?_)
  rw [abs_mul, abs_mul, abs_mul, abs_mul, abs_of_nonneg (hn k hk), abs_of_nonneg (hn' l hl),
    abs_of_nonneg (hO0 k hk l hl)]
  have hw : 0 ≤ |c k| * n k * (|c' l| * n' l) :=
    mul_nonneg (mul_nonneg (abs_nonneg _) (hn k hk)) (mul_nonneg (abs_nonneg _) (hn' l hl))
  calc |c k| * n k * (|c' l| * n' l) * O k l ≤ |c k| * n k * (|c' l| * n' l) * T :=
        mul_le_mul_of_nonneg_left (hO k hk l hl) hw
    _ = T * (|c k| * n k * (|c' l| * n' l)) := by ring

/-- strict version: `O_kl < T` everywhere and the weight product is positive -/
theorem abs_double_sum_lt (c n : ι → ℝ) (c' n' : κ → ℝ) (O : ι → κ → ℝ) (T : ℝ)
    (hn : ∀ k ∈ s, 0 ≤ n k) (hn' : ∀ l ∈ t, 0 ≤ n' l)
    (hO0 : ∀ k ∈ s, ∀ l ∈ t, 0 ≤ O k l) (hO : ∀ k ∈ s, ∀ l ∈ t, O k l < T)
    (hpos : 0 < (∑ k ∈ s, |c k| * n k) * (∑ l ∈ t, |c' l| * n' l)) :
    |∑ k ∈ s, ∑ l ∈ t, c k * n k * (c' l * n' l) * O k l|
      < T * ((∑ k ∈ s, |c k| * n k) * (∑ l ∈ t, |c' l| * n' l)) := by
  -- the weighted mean of the `O_kl` is `< T`
  have hw : ∀ k ∈ s, ∀ l ∈ t, 0 ≤ |c k| * n k * (|c' l| * n' l) := fun k hk l hl =>
    mul_nonneg (mul_nonneg (abs_nonneg _) (hn k hk)) (mul_nonneg (abs_nonneg _) (hn' l hl))
  have h1 : |∑ k ∈ s, ∑ l ∈ t, c k * n k * (c' l * n' l) * O k l|
      ≤ ∑ k ∈ s, ∑ l ∈ t, |c k| * n k * (|c' l| * n' l) * O k l := by
    refine (Finset.abs_sum_le_sum_abs _ _).trans (Finset.sum_le_sum fun k hk => ?_)
    refine (Finset.abs_sum_le_sum_abs _ _).trans (Finset.sum_le_sum fun l hl => ?_)
    rw [abs_mul, abs_mul, abs_mul, abs_mul, abs_of_nonneg (hn k hk), abs_of_nonneg (hn' l hl),
      abs_of_nonneg (hO0 k hk l hl)]
  refine lt_of_le_of_lt h1 ?_
  rw [Finset.sum_mul_sum, Finset.mul_sum] at *
  -- some weight is positive
  obtain ⟨k0, hk0, hk0pos⟩ : ∃ k ∈ s, 0 < ∑ l ∈ t, |c k| * n k * (|c' l| * n' l) := by
    by_contra hcon
    push Not at hcon
    have : ∑ k ∈ s, ∑ l ∈ t, |c k| * n k * (|c' l| * n' l) ≤ 0 :=
      Finset.sum_nonpos fun k hk => hcon k hk
    linarith
  obtain ⟨l0, hl0, hl0pos⟩ : ∃ l ∈ t, 0 < |c k0| * n k0 * (|c' l| * n' l) := by
    by_contra hcon
    push Not at hcon
    have : ∑ l ∈ t, |c k0| * n k0 * (|c' l| * n' l) ≤ 0 :=
      Finset.sum_nonpos fun l hl => hcon l hl
    linarith
  refine Finset.sum_lt_sum (fun k hk => ?_) ⟨k0, hk0, ?_⟩
  · rw [Finset.mul_sum]
    refine Finset.sum_le_sum fun l hl => ?_
    calc |c k| * n k * (|c' l| * n' l) * O k l ≤ |c k| * n k * (|c' l| * n' l) * T :=
          mul_le_mul_of_nonneg_left (hO k hk l hl).le (hw k hk l hl)
      _ = T * (|c k| * n k * (|c' l| * n' l)) := by ring
  · rw [Finset.mul_sum]
    refine Finset.sum_lt_sum (fun l hl => ?_) ⟨l0, hl0, ?_⟩
    · calc |c k0| * n k0 * (|c' l| * n' l) * O k0 l ≤ |c k0| * n k0 * (|c' l| * n' l) * T :=
            mul_le_mul_of_nonneg_left (hO k0 hk0 l hl).le (hw k0 hk0 l hl)
        _ = T * (|c k0| * n k0 * (|c' l| * n' l)) := by ring
    · calc |c k0| * n k0 * (|c' l0| * n' l0) * O k0 l0 < |c k0| * n k0 * (|c' l0| * n' l0) * T :=
            mul_lt_mul_of_pos_left (hO k0 hk0 l0 hl0) hl0pos
        _ = T * (|c k0| * n k0 * (|c' l0| * n' l0)) := by ring

/-- **Screening is conservative for contracted s-type functions** (`≤` form, no side condition):
exponents `a k ≥ αa`, `b l ≥ αb`, arbitrary coefficients `c`, `c'`, non-negative norms `n`, `n'`. -/
theorem screen_conservative_le (αa αb d tol : ℝ) (a c n : ι → ℝ) (b c' n' : κ → ℝ)
    (ha : 0 < αa) (hb : 0 < αb) (hd : 0 ≤ d) (ht0 : 0 < tol) (ht1 : tol < 1)
    (hα : ∀ k ∈ s, αa ≤ a k) (hβ : ∀ l ∈ t, αb ≤ b l)
    (hn : ∀ k ∈ s, 0 ≤ n k) (hn' : ∀ l ∈ t, 0 ≤ n' l)
    (h : screened αa αb d tol) :
    |∑ k ∈ s, ∑ l ∈ t, c k * n k * (c' l * n' l) * sOverlap (a k) (b l) d|
      ≤ tol * ((∑ k ∈ s, |c k| * n k) * (∑ l ∈ t, |c' l| * n' l)) :=
  abs_double_sum_le s t c n c' n' (fun k l => sOverlap (a k) (b l) d) tol hn hn'
    (fun k hk l hl => sOverlap_nonneg _ _ _ (ha.le.trans (hα k hk)) (hb.le.trans (hβ l hl)))
    (fun k hk l hl =>
      (screen_conservative_prim αa αb (a k) (b l) d tol ha hb (hα k hk) (hβ l hl) hd ht0 ht1 h).le)

/-- **Screening is conservative for contracted s-type functions** (strict form): if some product
`|c_k| n_k |c'_l| n'_l` is non-zero, the neglected overlap is strictly below
`tol · (Σ|c_k| n_k)(Σ|c'_l| n'_l)`. -/
theorem screen_conservative (αa αb d tol : ℝ) (a c n : ι → ℝ) (b c' n' : κ → ℝ)
    (ha : 0 < αa) (hb : 0 < αb) (hd : 0 ≤ d) (ht0 : 0 < tol) (ht1 : tol < 1)
    (hα : ∀ k ∈ s, αa ≤ a k) (hβ : ∀ l ∈ t, αb ≤ b l)
    (hn : ∀ k ∈ s, 0 ≤ n k) (hn' : ∀ l ∈ t, 0 ≤ n' l)
    (hpos : 0 < (∑ k ∈ s, |c k| * n k) * (∑ l ∈ t, |c' l| * n' l))
    (h : screened αa αb d tol) :
    |∑ k ∈ s, ∑ l ∈ t, c k * n k * (c' l * n' l) * sOverlap (a k) (b l) d|
      < tol * ((∑ k ∈ s, |c k| * n k) * (∑ l ∈ t, |c' l| * n' l)) :=
  abs_double_sum_lt s t c n c' n' (fun k l => sOverlap (a k) (b l) d) tol hn hn'
    (fun k hk l hl => sOverlap_nonneg _ _ _ (ha.le.trans (hα k hk)) (hb.le.trans (hβ l hl)))
    (fun k hk l hl =>
      screen_conservative_prim αa αb (a k) (b l) d tol ha hb (hα k hk) (hβ l hl) hd ht0 ht1 h)
    hpos

end Sums


end GB
