import GBModel.Parsers
/-!
# Round trip `parse ∘ render = id` for the basis-set file parsers, and `make_contractions`

All statements are about the token-line model `GB.Parse` of `GBModel/Parsers.lean`.
-/
namespace GB.Parse

/-! ## well-formedness -/

/-- a token the data regex `[0-9\.DE\+\-]+` accepts -/
def WFNum (s : String) : Prop := isNumTok s = true
/-- an exponent token: numeric and written with a decimal point (so that it is not a `\w+` word) -/
def WFExp (s : String) : Prop := isNumTok s = true ∧ '.' ∈ s.toList
/-- a 1- or 2-letter element symbol -/
def WFSym (a : String) : Prop := isWord a = true ∧ a.length ≤ 2
/-- a primitive row: exponent and at least one coefficient -/
def WFRow (r : String × List String) : Prop := WFExp r.1 ∧ r.2 ≠ [] ∧ ∀ c ∈ r.2, WFNum c

/-- what the NWChem round trip needs of a group -/
def WFGroupNw (g : Group) : Prop :=
  g.ls ≠ [] ∧ (∀ l ∈ g.ls, l < 8) ∧ g.rows ≠ [] ∧ ∀ r ∈ g.rows, WFRow r

/-- number of coefficient columns (of the first row) -/
def Group.width (g : Group) : Nat := match g.rows with | [] => 0 | r :: _ => r.2.length

/-- a well-formed group: letters `< 8`, at least one row, all rows with the same number `≥ 1` of
numeric coefficient tokens, one column per letter for SP-type groups -/
def WFGroup (g : Group) : Prop :=
  WFGroupNw g ∧ (∀ r ∈ g.rows, r.2.length = g.width) ∧ (2 ≤ g.ls.length → g.width = g.ls.length)

/-- a group as the `.gbs` format writes it: exactly one coefficient column per letter -/
def WFGroupGbs (g : Group) : Prop :=
  WFGroupNw g ∧ ∀ r ∈ g.rows, r.2.length = g.ls.length

instance : DecidablePred WFNum := fun s => by unfold WFNum; infer_instance
instance : DecidablePred WFExp := fun s => by unfold WFExp; infer_instance
instance : DecidablePred WFSym := fun s => by unfold WFSym; infer_instance
instance : DecidablePred WFRow := fun s => by unfold WFRow; infer_instance
instance : DecidablePred WFGroupNw := fun s => by unfold WFGroupNw; infer_instance
instance : DecidablePred WFGroup := fun s => by unfold WFGroup; infer_instance
instance : DecidablePred WFGroupGbs := fun s => by unfold WFGroupGbs; infer_instance

theorem WFGroup.toNw {g : Group} (h : WFGroup g) : WFGroupNw g := h.1

/-! ## string-level facts -/

theorem isEmpty_eq_toList (s : String) : s.isEmpty = s.toList.isEmpty := by
  cases h : s.toList with
  | nil => rw [String.toList_eq_nil_iff] at h; subst h; rfl
  | cons c cs =>
    have : s ≠ "" := by
      intro e; subst e; simp at h
    simp [String.isEmpty_eq_false_iff.2 this]

theorem isWord_eq (s : String) : isWord s = (!s.toList.isEmpty && s.toList.all isWordChar) := by
  unfold isWord; rw [isEmpty_eq_toList]

theorem isNumTok_ne_empty {s : String} (h : isNumTok s = true) : s.toList ≠ [] := by
  unfold isNumTok at h; rw [isEmpty_eq_toList] at h
  intro e; simp [e] at h

theorem isWord_false_of_point {s : String} (h : '.' ∈ s.toList) : isWord s = false := by
  rw [isWord_eq]
  have : s.toList.all isWordChar = false := by
    rw [List.all_eq_false]
    exact ⟨'.', h, by decide⟩
  simp [this]

/-- the letter of an angular momentum as a character -/
def letterChar (l : Nat) : Char :=
  ((dictAngmom.find? fun p => p.2 == l).map fun p => p.1.toUpper).getD '?'

theorem letter_facts : ∀ l, l < 8 →
    letterOf l = String.singleton (letterChar l) ∧ isWordChar (letterChar l) = true ∧
      angmomOf (letterChar l) = some l := by decide

/-- the letters written by the renderers are upper-case -/
theorem letterChar_upper : ∀ l, l < 8 → (letterChar l).isUpper = true := by decide

theorem toList_letters {ls : List Nat} (h : ∀ l ∈ ls, l < 8) :
    (String.join (ls.map letterOf)).toList = ls.map letterChar := by
  rw [String.toList_join]
  induction ls with
  | nil => rfl
  | cons l ls ih =>
    have hl := (letter_facts l (h l (by simp))).1
    simp only [List.map_cons, List.flatMap_cons, hl, String.toList_singleton]
    rw [ih (fun l hl => h l (by simp [hl]))]; rfl

theorem isWord_letters {ls : List Nat} (hne : ls ≠ []) (h : ∀ l ∈ ls, l < 8) :
    isWord (String.join (ls.map letterOf)) = true := by
  rw [isWord_eq, toList_letters h]
  have : (ls.map letterChar).all isWordChar = true := by
    rw [List.all_eq_true]
    intro c hc
    rw [List.mem_map] at hc
    obtain ⟨l, hl, rfl⟩ := hc
    exact (letter_facts l (h l hl)).2.1
  cases ls with
  | nil => exact absurd rfl hne
  | cons a as => simpa using this

theorem angmom_letters {ls : List Nat} (h : ∀ l ∈ ls, l < 8) :
    (String.join (ls.map letterOf)).toList.mapM angmomOf = some ls := by
  rw [toList_letters h]
  induction ls with
  | nil => rfl
  | cons l ls ih =>
    have hl := (letter_facts l (h l (by simp))).2.2
    simp [List.mapM_cons, hl, ih (fun l hl => h l (by simp [hl]))]

/-- the header line of a rendered group is recognised -/
theorem headerNw_group {a : String} {ls : List Nat} (ha : WFSym a) (hne : ls ≠ [])
    (h : ∀ l ∈ ls, l < 8) :
    headerNw [a, String.join (ls.map letterOf)] = some (a, String.join (ls.map letterOf)) := by
  simp [headerNw, ha.1, ha.2, isWord_letters hne h]

/-- the normalised form of a primitive row -/
def normRow (r : String × List String) : String × List String := (normNum r.1, r.2.map normNum)

theorem dataLine_row {r : String × List String} (h : WFRow r) :
    dataLine (r.1 :: r.2) = some (normRow r) := by
  obtain ⟨e, cs⟩ := r
  obtain ⟨he, hne, hc⟩ := h
  cases cs with
  | nil => exact absurd rfl hne
  | cons c cs =>
    have hall : (e :: c :: cs).all isNumTok = true := by
      rw [List.all_eq_true]
      intro x hx
      rcases List.mem_cons.1 hx with rfl | hx
      · exact he.1
      · exact hc x hx
    simp only [dataLine, hall, if_true, normRow]

theorem headerNw_row {r : String × List String} (h : WFRow r) : headerNw (r.1 :: r.2) = none := by
  obtain ⟨e, cs⟩ := r
  have hw : isWord e = false := isWord_false_of_point h.1.2
  match cs with
  | [] => rfl
  | [c] => simp [headerNw, hw]
  | _ :: _ :: _ => rfl

/-! ## NWChem: the state machine on rendered groups -/

/-- the states between groups: no pending header newline, no error, rows only under an open group -/
structure NwGood (s : NwState) : Prop where
  ph : s.prevHeader = false
  bad : s.bad = false
  rows : s.cur = none → s.rows = []

theorem nw_close_bad (s : NwState) : s.close.bad = s.bad := by
  unfold NwState.close; split <;> rfl
theorem nw_close_ph (s : NwState) : s.close.prevHeader = s.prevHeader := by
  unfold NwState.close; split <;> rfl
theorem nw_close_cur (s : NwState) : s.close.cur = none := by
  unfold NwState.close; split <;> simp_all
theorem nw_close_rows (s : NwState) (h : s.cur = none → s.rows = []) : s.close.rows = [] := by
  unfold NwState.close; split
  · rfl
  · next hc => exact h hc

/-- a primitive row under an open group is pushed, whatever `prevHeader` is -/
theorem nwStep_row {r : String × List String} (h : WFRow r) (out c rows ph bad) :
    nwStep ⟨out, some c, rows, ph, bad⟩ (r.1 :: r.2) = ⟨out, some c, normRow r :: rows, false, bad⟩ := by
  simp [nwStep, headerNw_row h, dataLine_row h]

theorem nwFold_rows (rs : List (String × List String)) (h : ∀ r ∈ rs, WFRow r) (out c rows ph bad) :
    (rs.map fun r => r.1 :: r.2).foldl nwStep ⟨out, some c, rows, ph, bad⟩ =
      ⟨out, some c, (rs.map normRow).reverse ++ rows, (if rs = [] then ph else false), bad⟩ := by
  induction rs generalizing rows ph with
  | nil => simp
  | cons r rs ih =>
    simp only [List.map_cons, List.foldl_cons]
    rw [nwStep_row (h r (by simp)), ih (fun r hr => h r (by simp [hr]))]
    simp

/-- the header of a rendered group closes the previous group and opens the new one -/
theorem nwStep_header {a : String} {ls : List Nat} (ha : WFSym a) (hne : ls ≠ [])
    (hl : ∀ l ∈ ls, l < 8) (s : NwState) (hs : NwGood s) :
    nwStep s [a, String.join (ls.map letterOf)] = ⟨s.close.out, some (a, ls), [], true, false⟩ := by
  have h1 := nw_close_bad s
  have h2 := nw_close_rows s hs.rows
  rw [hs.bad] at h1
  unfold nwStep
  simp only [List.isEmpty_cons, Bool.false_eq_true, if_false, hs.ph, headerNw_group ha hne hl,
    angmom_letters hl]
  generalize s.close = t at *
  obtain ⟨o, c, r, p, b⟩ := t
  simp_all

/-- folding `nwStep` over the lines of a rendered group -/
theorem nwFold_group {a : String} {g : Group} (ha : WFSym a) (hg : WFGroupNw g) (s : NwState)
    (hs : NwGood s) :
    (renderNwGroup a g).foldl nwStep s =
      ⟨s.close.out, some (a, g.ls), (g.rows.map normRow).reverse, false, false⟩ := by
  obtain ⟨hne, hl, hr, hrows⟩ := hg
  unfold renderNwGroup
  rw [List.foldl_cons, nwStep_header ha hne hl s hs, nwFold_rows g.rows hrows]
  simp [hr]

theorem shells_eq (g : Group) : g.shells = finishGroup g.ls (g.rows.map normRow) := rfl

theorem nwFold_group_spec {a : String} {g : Group} (ha : WFSym a) (hg : WFGroupNw g) (s : NwState)
    (hs : NwGood s) :
    NwGood ((renderNwGroup a g).foldl nwStep s) ∧
      ((renderNwGroup a g).foldl nwStep s).close.out = addShells s.close.out a g.shells := by
  rw [nwFold_group ha hg s hs]
  refine ⟨⟨rfl, rfl, by simp⟩, ?_⟩
  simp [NwState.close, shells_eq]

/-- the element/group pairs of a description in file order -/
def pairs (elems : List (String × List Group)) : List (String × Group) :=
  elems.flatMap fun e => e.2.map fun g => (e.1, g)

theorem renderNw_pairs (elems : List (String × List Group)) :
    renderNw elems = (pairs elems).flatMap fun p => renderNwGroup p.1 p.2 := by
  simp [renderNw, pairs, List.flatMap_assoc, List.flatMap_map]

theorem nwFold_pairs (ps : List (String × Group)) (h : ∀ p ∈ ps, WFSym p.1 ∧ WFGroupNw p.2)
    (s : NwState) (hs : NwGood s) :
    NwGood ((ps.flatMap fun p => renderNwGroup p.1 p.2).foldl nwStep s) ∧
      ((ps.flatMap fun p => renderNwGroup p.1 p.2).foldl nwStep s).close.out =
        ps.foldl (fun out p => addShells out p.1 p.2.shells) s.close.out := by
  induction ps generalizing s with
  | nil => exact ⟨hs, rfl⟩
  | cons p ps ih =>
    obtain ⟨hp1, hp2⟩ := h p (by simp)
    obtain ⟨g1, g2⟩ := nwFold_group_spec hp1 hp2 s hs
    simp only [List.flatMap_cons, List.foldl_append, List.foldl_cons]
    obtain ⟨i1, i2⟩ := ih (fun q hq => h q (by simp [hq])) _ g1
    exact ⟨i1, by rw [i2, g2]⟩

/-- all element symbols and groups of a description are well formed (NWChem requirements) -/
def WFElemsNw (elems : List (String × List Group)) : Prop :=
  ∀ e ∈ elems, WFSym e.1 ∧ ∀ g ∈ e.2, WFGroupNw g

/-- all element symbols and groups of a description are well formed -/
def WFElems (elems : List (String × List Group)) : Prop :=
  ∀ e ∈ elems, WFSym e.1 ∧ ∀ g ∈ e.2, WFGroup g

theorem WFElems.toNw {elems} (h : WFElems elems) : WFElemsNw elems :=
  fun e he => ⟨(h e he).1, fun g hg => ((h e he).2 g hg).1⟩

theorem wf_pairs {elems} (h : WFElemsNw elems) : ∀ p ∈ pairs elems, WFSym p.1 ∧ WFGroupNw p.2 := by
  intro p hp
  simp only [pairs, List.mem_flatMap, List.mem_map] at hp
  obtain ⟨e, he, g, hg, rfl⟩ := hp
  exact ⟨(h e he).1, (h e he).2 g hg⟩

/-- the dictionary `parse_nwchem` builds: shells appended per element in first-occurrence order -/
def expectedNw (elems : List (String × List Group)) : List (String × List ShellRec) :=
  (elems.flatMap fun e => e.2.map fun g => (e.1, g.shells)).foldl (fun out p => addShells out p.1 p.2) []

theorem expectedNw_pairs (elems : List (String × List Group)) :
    expectedNw elems = (pairs elems).foldl (fun out p => addShells out p.1 p.2.shells) [] := by
  have : (elems.flatMap fun e => e.2.map fun g => (e.1, g.shells)) =
      (pairs elems).map fun p => (p.1, p.2.shells) := by
    simp [pairs, List.map_flatMap, Function.comp_def]
  rw [expectedNw, this, List.foldl_map]

theorem nwGood_init : NwGood {} := ⟨rfl, rfl, fun _ => rfl⟩

/-- **NWChem round trip** (general form: symbols may repeat) -/
theorem parseNw_render (elems : List (String × List Group)) (h : WFElemsNw elems) :
    parseNw (renderNw elems) = some (expectedNw elems) := by
  obtain ⟨g1, g2⟩ := nwFold_pairs (pairs elems) (wf_pairs h) {} nwGood_init
  unfold parseNw
  rw [renderNw_pairs]
  simp only [nw_close_bad, g1.bad, g2, expectedNw_pairs]
  rfl

/-! ## `addShells` on pairwise distinct symbols -/

theorem addShells_fresh {out : List (String × List ShellRec)} {a : String} {shs : List ShellRec}
    (h : a ∉ out.map (·.1)) : addShells out a shs = out ++ [(a, shs)] := by
  have : out.any (·.1 == a) = false := by
    rw [List.any_eq_false]
    intro p hp hpa
    exact h (List.mem_map.2 ⟨p, hp, by simpa using hpa⟩)
  simp [addShells, this]

theorem addShells_last {out : List (String × List ShellRec)} {a : String} {acc shs : List ShellRec}
    (h : a ∉ out.map (·.1)) : addShells (out ++ [(a, acc)]) a shs = out ++ [(a, acc ++ shs)] := by
  have hmap : (out.map fun p => if p.1 = a then (p.1, p.2 ++ shs) else p) = out := by
    conv => rhs; rw [← List.map_id out]
    apply List.map_congr_left
    intro p hp
    have : p.1 ≠ a := fun e => h (List.mem_map.2 ⟨p, hp, e⟩)
    simp [this]
  simp [addShells, hmap]

theorem foldl_addShells_last' (sh : Group → List ShellRec) {out : List (String × List ShellRec)}
    {a : String} (gs : List Group) (acc : List ShellRec) (h : a ∉ out.map (·.1)) :
    gs.foldl (fun o g => addShells o a (sh g)) (out ++ [(a, acc)]) =
      out ++ [(a, acc ++ gs.flatMap sh)] := by
  induction gs generalizing acc with
  | nil => simp
  | cons g gs ih => simp [List.foldl_cons, addShells_last h, ih]

theorem foldl_addShells_last {out : List (String × List ShellRec)} {a : String} (gs : List Group)
    (acc : List ShellRec) (h : a ∉ out.map (·.1)) :
    gs.foldl (fun o g => addShells o a g.shells) (out ++ [(a, acc)]) =
      out ++ [(a, acc ++ gs.flatMap Group.shells)] := by
  induction gs generalizing acc with
  | nil => simp
  | cons g gs ih => simp [List.foldl_cons, addShells_last h, ih]

theorem foldl_pairs (f : List (String × List ShellRec) → String → Group → List (String × List ShellRec))
    (elems : List (String × List Group)) (out) :
    (pairs elems).foldl (fun o p => f o p.1 p.2) out =
      elems.foldl (fun acc e => e.2.foldl (fun o g => f o e.1 g) acc) out := by
  simp [pairs, List.foldl_flatMap, List.foldl_map]

theorem foldl_addShells_distinct (elems : List (String × List Group))
    (out : List (String × List ShellRec)) (hne : ∀ e ∈ elems, e.2 ≠ [])
    (hd : (elems.map (·.1)).Nodup) (hout : ∀ e ∈ elems, e.1 ∉ out.map (·.1)) :
    elems.foldl (fun acc e => e.2.foldl (fun o g => addShells o e.1 g.shells) acc) out =
      out ++ elems.map fun e => (e.1, e.2.flatMap Group.shells) := by
  induction elems generalizing out with
  | nil => simp
  | cons e es ih =>
    obtain ⟨a, gs⟩ := e
    have ha : a ∉ out.map (·.1) := hout (a, gs) (by simp)
    rw [List.map_cons, List.nodup_cons] at hd
    cases gs with
    | nil => exact absurd rfl (hne (a, []) (by simp))
    | cons g gs =>
      simp only [List.foldl_cons, addShells_fresh ha, foldl_addShells_last gs g.shells ha]
      rw [ih _ (fun e he => hne e (by simp [he])) hd.2]
      · simp
      · intro e he hmem
        simp only [List.map_append, List.map_cons, List.map_nil, List.mem_append,
          List.mem_singleton] at hmem
        rcases hmem with hmem | hmem
        · exact hout e (by simp [he]) hmem
        · exact hd.1 (hmem ▸ List.mem_map.2 ⟨e, he, rfl⟩)

/-- for pairwise distinct symbols (each with at least one group) the dictionary is the description -/
theorem expectedNw_distinct (elems : List (String × List Group)) (hne : ∀ e ∈ elems, e.2 ≠ [])
    (hd : (elems.map (·.1)).Nodup) :
    expectedNw elems = elems.map fun e => (e.1, e.2.flatMap Group.shells) := by
  rw [expectedNw_pairs, foldl_pairs (fun o a g => addShells o a g.shells),
    foldl_addShells_distinct elems [] hne hd (by simp)]
  simp

/-- the round trip under the full well-formedness predicate -/
theorem parseNw_render_wf (elems : List (String × List Group)) (h : WFElems elems) :
    parseNw (renderNw elems) = some (expectedNw elems) := parseNw_render elems h.toNw

/-- **NWChem round trip** for pairwise distinct element symbols -/
theorem parseNw_render_distinct (elems : List (String × List Group)) (h : WFElemsNw elems)
    (hne : ∀ e ∈ elems, e.2 ≠ []) (hd : (elems.map (·.1)).Nodup) :
    parseNw (renderNw elems) = some (elems.map fun e => (e.1, e.2.flatMap Group.shells)) := by
  rw [parseNw_render elems h, expectedNw_distinct elems hne hd]

/-! ## noise -/

/-- `Noisy P L' L`: `L'` is `L` with lines satisfying `P` inserted at arbitrary places -/
inductive Noisy (P : Line → Prop) : List Line → List Line → Prop
  | nil : Noisy P [] []
  | keep (ln : Line) {L' L : List Line} : Noisy P L' L → Noisy P (ln :: L') (ln :: L)
  | ins {ln : Line} {L' L : List Line} : P ln → Noisy P L' L → Noisy P (ln :: L') L

theorem Noisy.refl {P} (L : List Line) : Noisy P L L := by
  induction L with
  | nil => exact .nil
  | cons ln L ih => exact .keep ln ih

theorem Noisy.of_all {P} {N : List Line} (h : ∀ ln ∈ N, P ln) : Noisy P N [] := by
  induction N with
  | nil => exact .nil
  | cons ln N ih => exact .ins (h ln (by simp)) (ih fun l hl => h l (by simp [hl]))

theorem Noisy.append {P} {A' A B' B : List Line} (h1 : Noisy P A' A) (h2 : Noisy P B' B) :
    Noisy P (A' ++ B') (A ++ B) := by
  induction h1 with
  | nil => simpa using h2
  | keep ln _ ih => exact .keep ln ih
  | ins hp _ ih => exact .ins hp ih

theorem Noisy.flatMap {P} {α β : Type} (xs : List α) (k : α → β) (f : α → List Line)
    (g : β → List Line) (h : ∀ x ∈ xs, Noisy P (f x) (g (k x))) :
    Noisy P (xs.flatMap f) ((xs.map k).flatMap g) := by
  induction xs with
  | nil => exact .nil
  | cons x xs ih =>
    simpa using (h x (by simp)).append (ih fun y hy => h y (by simp [hy]))

/-- removing the `P`-lines of a file -/
theorem Noisy.filter {P} [DecidablePred P] (L' : List Line) :
    Noisy P L' (L'.filter fun ln => !decide (P ln)) := by
  induction L' with
  | nil => exact .nil
  | cons ln L ih =>
    by_cases h : P ln
    · simpa [List.filter_cons, h] using Noisy.ins h ih
    · simpa [List.filter_cons, h] using Noisy.keep ln ih

/-- a line `parse_nwchem` ignores: neither header nor data (blank lines included) -/
def NoiseNw (ln : Line) : Prop := headerNw ln = none ∧ dataLine ln = none

instance : DecidablePred NoiseNw := fun ln => by unfold NoiseNw; infer_instance

/-- in the run from `t` no header line is hidden by a directly preceding header -/
def SafeNw (t : NwState) : List Line → Prop
  | [] => True
  | ln :: rest => (t.prevHeader = true → headerNw ln = none) ∧ SafeNw (nwStep t ln) rest

theorem safeNw_append (t : NwState) (A B : List Line) :
    SafeNw t (A ++ B) ↔ SafeNw t A ∧ SafeNw (A.foldl nwStep t) B := by
  induction A generalizing t with
  | nil => simp [SafeNw]
  | cons a A ih => simp [SafeNw, ih, and_assoc]

theorem safeNw_of_no_header (t : NwState) (L : List Line) (h : ∀ ln ∈ L, headerNw ln = none) :
    SafeNw t L := by
  induction L generalizing t with
  | nil => trivial
  | cons a A ih => exact ⟨fun _ => h a (by simp), ih _ fun l hl => h l (by simp [hl])⟩

/-- the noisy run `s` simulates the clean run `t`: equal up to `prevHeader`, which the noise can
only have reset -/
structure NwSim (s t : NwState) : Prop where
  out : s.out = t.out
  cur : s.cur = t.cur
  rows : s.rows = t.rows
  bad : s.bad = t.bad
  ph : s.prevHeader = true → t.prevHeader = true

theorem nwStep_noise {ln : Line} (h : NoiseNw ln) (s : NwState) :
    nwStep s ln = s ∨ nwStep s ln = { s with prevHeader := false } := by
  by_cases he : ln.isEmpty
  · left; simp [nwStep, he]
  · right; simp [nwStep, he, h.1, h.2]

theorem nwSim_noise {ln : Line} (h : NoiseNw ln) {s t : NwState} (hs : NwSim s t) :
    NwSim (nwStep s ln) t := by
  rcases nwStep_noise h s with e | e <;> rw [e]
  · exact hs
  · exact ⟨hs.out, hs.cur, hs.rows, hs.bad, fun h => by simp at h⟩

theorem nwSim_step {ln : Line} {s t : NwState} (h : NwSim s t)
    (hh : t.prevHeader = true → headerNw ln = none) : NwSim (nwStep s ln) (nwStep t ln) := by
  obtain ⟨so, sc, sr, sp, sb⟩ := s
  obtain ⟨to, tc, tr, tp, tb⟩ := t
  obtain ⟨h1, h2, h3, h4, h5⟩ := h
  simp only at h1 h2 h3 h4 h5 hh
  subst h1 h2 h3 h4
  by_cases he : ln = []
  · simpa [nwStep, he] using (⟨rfl, rfl, rfl, rfl, h5⟩ : NwSim ⟨so, sc, sr, sp, sb⟩ ⟨so, sc, sr, tp, sb⟩)
  · cases tp with
    | false =>
      have : sp = false := by cases sp <;> simp_all
      subst this; exact ⟨rfl, rfl, rfl, rfl, id⟩
    | true =>
      have hn := hh rfl
      have e : nwStep ⟨so, sc, sr, sp, sb⟩ ln = nwStep ⟨so, sc, sr, true, sb⟩ ln := by
        cases sp <;> simp [nwStep, hn, he]
      rw [e]; exact ⟨rfl, rfl, rfl, rfl, id⟩

theorem nwSim_fold {L' L : List Line} (h : Noisy NoiseNw L' L) {s t : NwState} (hs : NwSim s t)
    (hsafe : SafeNw t L) : NwSim (L'.foldl nwStep s) (L.foldl nwStep t) := by
  induction h generalizing s t with
  | nil => exact hs
  | keep ln _ ih => exact ih (nwSim_step hs hsafe.1) hsafe.2
  | ins hp _ ih => exact ih (nwSim_noise hp hs) hsafe

theorem nwSim_close {s t : NwState} (h : NwSim s t) :
    s.close.out = t.close.out ∧ s.close.bad = t.close.bad := by
  obtain ⟨so, sc, sr, sp, sb⟩ := s
  obtain ⟨to, tc, tr, tp, tb⟩ := t
  obtain ⟨h1, h2, h3, h4, h5⟩ := h
  simp only at h1 h2 h3 h4
  subst h1 h2 h3 h4
  cases sc <;> exact ⟨rfl, rfl⟩

/-- **noise robustness of `parse_nwchem`**: inserting ignorable lines anywhere into a file in which no
header directly follows a header does not change the result -/
theorem parseNw_noisy {L' L : List Line} (h : Noisy NoiseNw L' L) (hsafe : SafeNw {} L) :
    parseNw L' = parseNw L := by
  have hsim := nwSim_fold h (s := {}) (t := {}) ⟨rfl, rfl, rfl, rfl, id⟩ hsafe
  obtain ⟨e1, e2⟩ := nwSim_close hsim
  simp only [parseNw, e1, e2]

theorem safeNw_group {a : String} {g : Group} (hg : WFGroupNw g) (s : NwState) (hs : NwGood s) :
    SafeNw s (renderNwGroup a g) := by
  refine ⟨fun h => by simp [hs.ph] at h, safeNw_of_no_header _ _ ?_⟩
  intro ln hln
  rw [List.mem_map] at hln
  obtain ⟨r, hr, rfl⟩ := hln
  exact headerNw_row (hg.2.2.2 r hr)

theorem safeNw_pairs (ps : List (String × Group)) (h : ∀ p ∈ ps, WFSym p.1 ∧ WFGroupNw p.2)
    (s : NwState) (hs : NwGood s) : SafeNw s (ps.flatMap fun p => renderNwGroup p.1 p.2) := by
  induction ps generalizing s with
  | nil => trivial
  | cons p ps ih =>
    obtain ⟨hp1, hp2⟩ := h p (by simp)
    rw [List.flatMap_cons, safeNw_append]
    exact ⟨safeNw_group hp2 s hs,
      ih (fun q hq => h q (by simp [hq])) _ (nwFold_group_spec hp1 hp2 s hs).1⟩

/-- in a rendered file every header is followed by a data line -/
theorem safeNw_render (elems : List (String × List Group)) (h : WFElemsNw elems) :
    SafeNw {} (renderNw elems) := by
  rw [renderNw_pairs]; exact safeNw_pairs _ (wf_pairs h) {} nwGood_init

/-- **NWChem round trip with arbitrary noise**: any file obtained from the rendered description by
inserting ignorable (noise or blank) lines *anywhere* parses to the same dictionary -/
theorem parseNw_render_noisy (elems : List (String × List Group)) (h : WFElemsNw elems)
    {L' : List Line} (hL : Noisy NoiseNw L' (renderNw elems)) :
    parseNw L' = some (expectedNw elems) := by
  rw [parseNw_noisy hL (safeNw_render elems h), parseNw_render elems h]

/-- preamble of any length (0, 1, many lines) and trailing noise -/
theorem parseNw_render_preamble (elems : List (String × List Group)) (h : WFElemsNw elems)
    (pre post : List Line) (hpre : ∀ ln ∈ pre, NoiseNw ln) (hpost : ∀ ln ∈ post, NoiseNw ln) :
    parseNw (pre ++ renderNw elems ++ post) = parseNw (renderNw elems) := by
  apply parseNw_noisy _ (safeNw_render elems h)
  simpa using ((Noisy.of_all hpre).append (Noisy.refl _)).append (Noisy.of_all hpost)

/-- the same phrased with a filter: if deleting the ignorable lines of a file leaves the rendered
description, the file parses to the description -/
theorem parseNw_of_filter (elems : List (String × List Group)) (h : WFElemsNw elems)
    (L' : List Line) (hL : (L'.filter fun ln => !decide (NoiseNw ln)) = renderNw elems) :
    parseNw L' = some (expectedNw elems) :=
  parseNw_render_noisy elems h (hL ▸ Noisy.filter L')

/-- rendering with noise after every group -/
def renderNwWith (elems : List (String × List (Group × List Line))) : List Line :=
  elems.flatMap fun e => e.2.flatMap fun gj => renderNwGroup e.1 gj.1 ++ gj.2

/-- forget the noise -/
def stripNoise (elems : List (String × List (Group × List Line))) : List (String × List Group) :=
  elems.map fun e => (e.1, e.2.map (·.1))

/-- **NWChem round trip, preamble and noise between groups** -/
theorem parseNw_render_interleaved (elems : List (String × List (Group × List Line)))
    (h : WFElemsNw (stripNoise elems)) (pre : List Line) (hpre : ∀ ln ∈ pre, NoiseNw ln)
    (hn : ∀ e ∈ elems, ∀ gj ∈ e.2, ∀ ln ∈ gj.2, NoiseNw ln) :
    parseNw (pre ++ renderNwWith elems) = parseNw (renderNw (stripNoise elems)) := by
  apply parseNw_noisy _ (safeNw_render _ h)
  have : Noisy NoiseNw (renderNwWith elems) (renderNw (stripNoise elems)) := by
    unfold renderNwWith renderNw stripNoise
    apply Noisy.flatMap
    intro e he
    apply Noisy.flatMap (g := renderNwGroup e.1)
    intro gj hgj
    simpa using (Noisy.refl (renderNwGroup e.1 gj.1)).append (Noisy.of_all (hn e he gj hgj))
  simpa using (Noisy.of_all hpre).append this

/-! ## Gaussian94 -/

theorem isWord_toString_nat (n : Nat) : isWord (toString n) = true := by
  rw [isWord_eq, Nat.toString_eq_repr, Nat.toList_repr]
  have h1 : (Nat.toDigits 10 n).isEmpty = false := by
    cases h : Nat.toDigits 10 n with
    | nil => exact absurd h Nat.toDigits_ne_nil
    | cons _ _ => rfl
  have h2 : (Nat.toDigits 10 n).all isWordChar = true := by
    rw [List.all_eq_true]
    intro c hc
    have : c.isDigit = true := Nat.isDigit_of_mem_toDigits (by decide) (by decide) hc
    simp [isWordChar, Char.isAlphanum, this]
  simp [h1, h2]

theorem headerGbsElem_line {a : String} (ha : WFSym a) : headerGbsElem [a, "0"] = some a := by
  have : isWord "0" = true := by decide
  simp [headerGbsElem, ha.1, ha.2, this]

theorem headerGbsShell_line {ls : List Nat} (hne : ls ≠ []) (h : ∀ l ∈ ls, l < 8) (n : Nat) :
    headerGbsShell [String.join (ls.map letterOf), toString n, "1.00"] =
      some (String.join (ls.map letterOf)) := by
  have : isPointNumber "1.00" = true := by decide
  simp only [headerGbsShell, isWord_letters hne h, isWord_toString_nat, this, Bool.and_self, if_true]

theorem headerGbsElem_row {r : String × List String} (h : WFRow r) :
    headerGbsElem (r.1 :: r.2) = none := by
  obtain ⟨e, cs⟩ := r
  have hw : isWord e = false := isWord_false_of_point h.1.2
  match cs with
  | [] => rfl
  | [c] => simp [headerGbsElem, hw]
  | _ :: _ :: _ => rfl

theorem headerGbsShell_row {r : String × List String} (h : WFRow r) :
    headerGbsShell (r.1 :: r.2) = none := by
  obtain ⟨e, cs⟩ := r
  have hw : isWord e = false := isWord_false_of_point h.1.2
  match cs with
  | [] => rfl
  | [c] => rfl
  | [c, d] => simp [headerGbsShell, hw]
  | _ :: _ :: _ :: _ => rfl

/-- the shells `parse_gbs` makes of a group: one per letter, with its own column -/
def gbsShellsOf (ls : List Nat) (rows : List (String × List String)) : List ShellRec :=
  (ls.zipIdx).map fun (l, i) => ⟨l, rows.map (·.1), [(columns (rows.map (·.2))).getD i []]⟩

def Group.gbsShells (g : Group) : List ShellRec := gbsShellsOf g.ls (g.rows.map normRow)

theorem gbs_close_atom (s : GbsState) : s.close.atom = s.atom := by
  unfold GbsState.close; split <;> rfl
theorem gbs_close_bad (s : GbsState) : s.close.bad = s.bad := by
  unfold GbsState.close; split <;> rfl
theorem gbs_close_ph (s : GbsState) : s.close.prevHeader = s.prevHeader := by
  unfold GbsState.close; split <;> rfl
theorem gbs_close_cur (s : GbsState) : s.close.cur = none := by
  unfold GbsState.close; split <;> rfl
theorem gbs_close_rows (s : GbsState) : s.close.rows = [] := by
  unfold GbsState.close; split <;> rfl
theorem gbs_close_out_ph (out atom cur rows ph ph' bad) :
    (GbsState.close ⟨out, atom, cur, rows, ph, bad⟩).out =
      (GbsState.close ⟨out, atom, cur, rows, ph', bad⟩).out := by
  cases atom <;> cases cur <;> rfl

theorem gbsStep_row {r : String × List String} (h : WFRow r) (out atom ls rows ph bad) :
    gbsStep ⟨out, atom, some ls, rows, ph, bad⟩ (r.1 :: r.2) =
      ⟨out, atom, some ls, normRow r :: rows, false, bad⟩ := by
  simp [gbsStep, headerGbsElem_row h, headerGbsShell_row h, dataLine_row h]

theorem gbsFold_rows (rs : List (String × List String)) (h : ∀ r ∈ rs, WFRow r)
    (out atom ls rows bad) :
    (rs.map fun r => r.1 :: r.2).foldl gbsStep ⟨out, atom, some ls, rows, false, bad⟩ =
      ⟨out, atom, some ls, (rs.map normRow).reverse ++ rows, false, bad⟩ := by
  induction rs generalizing rows with
  | nil => simp
  | cons r rs ih =>
    simp only [List.map_cons, List.foldl_cons]
    rw [gbsStep_row (h r (by simp)), ih (fun r hr => h r (by simp [hr]))]
    simp

theorem headerGbsElem_three (a b c : String) : headerGbsElem [a, b, c] = none := rfl

/-- the shell line closes the previous group and opens the next -/
theorem gbsStep_shell {ls : List Nat} (hne : ls ≠ []) (hl : ∀ l ∈ ls, l < 8) (n : Nat) (a : String)
    (u : GbsState) (hu : u.atom = some a) :
    gbsStep u [String.join (ls.map letterOf), toString n, "1.00"] =
      ⟨u.close.out, some a, some ls, [], false, u.bad⟩ := by
  have h1 := gbs_close_atom u
  have h2 := gbs_close_bad u
  have h3 := gbs_close_rows u
  rw [hu] at h1
  unfold gbsStep
  simp only [List.isEmpty_cons, Bool.false_eq_true, if_false, headerGbsElem_three, ite_self,
    headerGbsShell_line hne hl, angmom_letters hl]
  generalize u.close = t at *
  obtain ⟨o, at', c, r, p, b⟩ := t
  simp_all

theorem gbsFold_group {a : String} {g : Group} (hg : WFGroupNw g) (u : GbsState)
    (hu : u.atom = some a) :
    (renderGbsGroup g).foldl gbsStep u =
      ⟨u.close.out, some a, some g.ls, (g.rows.map normRow).reverse, false, u.bad⟩ := by
  obtain ⟨hne, hl, _, hrows⟩ := hg
  unfold renderGbsGroup
  rw [List.foldl_cons, gbsStep_shell hne hl _ a u hu, gbsFold_rows g.rows hrows]
  simp

theorem gbsFold_group_spec {a : String} {g : Group} (hg : WFGroupNw g) (u : GbsState)
    (hu : u.atom = some a) :
    ((renderGbsGroup g).foldl gbsStep u).atom = some a ∧
    ((renderGbsGroup g).foldl gbsStep u).bad = u.bad ∧
    ((renderGbsGroup g).foldl gbsStep u).close.out = addShells u.close.out a g.gbsShells := by
  rw [gbsFold_group hg u hu]
  refine ⟨rfl, rfl, ?_⟩
  simp [GbsState.close, Group.gbsShells, gbsShellsOf]

theorem gbsFold_groups {a : String} (gs : List Group) (hg : ∀ g ∈ gs, WFGroupNw g) (u : GbsState)
    (hu : u.atom = some a) :
    ((gs.flatMap renderGbsGroup).foldl gbsStep u).atom = some a ∧
    ((gs.flatMap renderGbsGroup).foldl gbsStep u).bad = u.bad ∧
    ((gs.flatMap renderGbsGroup).foldl gbsStep u).close.out =
      gs.foldl (fun o g => addShells o a g.gbsShells) u.close.out := by
  induction gs generalizing u with
  | nil => exact ⟨hu, rfl, rfl⟩
  | cons g gs ih =>
    obtain ⟨g1, g2, g3⟩ := gbsFold_group_spec (hg g (by simp)) u hu
    simp only [List.flatMap_cons, List.foldl_append, List.foldl_cons]
    obtain ⟨i1, i2, i3⟩ := ih (fun q hq => hg q (by simp [hq])) _ g1
    exact ⟨i1, by rw [i2, g2], by rw [i3, g3]⟩

/-- the terminator line only resets `prevHeader` -/
theorem gbsStep_stars (s : GbsState) : gbsStep s ["****"] = { s with prevHeader := false } := by
  simp [gbsStep, headerGbsElem, headerGbsShell, dataLine]

/-- the element line closes the open group and registers the element -/
theorem gbsStep_elem {a : String} (ha : WFSym a) (s : GbsState) (hs : s.prevHeader = false) :
    gbsStep s [a, "0"] = ⟨addShells s.close.out a [], some a, none, [], true, s.bad⟩ := by
  have h2 := gbs_close_bad s
  have h3 := gbs_close_rows s
  have h4 := gbs_close_cur s
  unfold gbsStep
  simp only [List.isEmpty_cons, Bool.false_eq_true, if_false, hs, headerGbsElem_line ha]
  generalize s.close = t at *
  obtain ⟨o, at', c, r, p, b⟩ := t
  simp_all

/-- the lines of one element in a `.gbs` file -/
def renderGbsElem (e : String × List Group) : List Line :=
  [e.1, "0"] :: (e.2.flatMap renderGbsGroup) ++ [["****"]]

theorem renderGbs_eq (elems : List (String × List Group)) :
    renderGbs elems = elems.flatMap renderGbsElem := rfl

theorem gbsFold_elem {e : String × List Group} (ha : WFSym e.1) (hg : ∀ g ∈ e.2, WFGroupNw g)
    (s : GbsState) (hs : s.prevHeader = false) :
    ((renderGbsElem e).foldl gbsStep s).prevHeader = false ∧
    ((renderGbsElem e).foldl gbsStep s).bad = s.bad ∧
    ((renderGbsElem e).foldl gbsStep s).close.out =
      e.2.foldl (fun o g => addShells o e.1 g.gbsShells) (addShells s.close.out e.1 []) := by
  obtain ⟨a, gs⟩ := e
  simp only [renderGbsElem, List.cons_append, List.foldl_cons, List.foldl_append, List.foldl_nil,
    gbsStep_elem ha s hs, gbsStep_stars]
  obtain ⟨g1, g2, g3⟩ := gbsFold_groups (a := a) gs hg
    ⟨addShells s.close.out a [], some a, none, [], true, s.bad⟩ rfl
  generalize (gs.flatMap renderGbsGroup).foldl gbsStep
    ⟨addShells s.close.out a [], some a, none, [], true, s.bad⟩ = t at *
  obtain ⟨o, at', c, r, p, b⟩ := t
  refine ⟨trivial, g2, ?_⟩
  show (GbsState.close ⟨o, at', c, r, false, b⟩).out = _
  rw [gbs_close_out_ph o at' c r false p b, g3]
  rfl

/-- the dictionary `parse_gbs` builds (flattened observable), symbols may repeat -/
def expectedGbs (elems : List (String × List Group)) : List (String × List ShellRec) :=
  elems.foldl (fun out e => e.2.foldl (fun o g => addShells o e.1 g.gbsShells) (addShells out e.1 [])) []

theorem gbsFold_elems (elems : List (String × List Group)) (h : WFElemsNw elems) (s : GbsState)
    (hs : s.prevHeader = false) :
    ((elems.flatMap renderGbsElem).foldl gbsStep s).prevHeader = false ∧
    ((elems.flatMap renderGbsElem).foldl gbsStep s).bad = s.bad ∧
    ((elems.flatMap renderGbsElem).foldl gbsStep s).close.out =
      elems.foldl (fun out e => e.2.foldl (fun o g => addShells o e.1 g.gbsShells)
        (addShells out e.1 [])) s.close.out := by
  induction elems generalizing s with
  | nil => exact ⟨hs, rfl, rfl⟩
  | cons e es ih =>
    obtain ⟨g1, g2, g3⟩ := gbsFold_elem (h e (by simp)).1 (h e (by simp)).2 s hs
    simp only [List.flatMap_cons, List.foldl_append, List.foldl_cons]
    obtain ⟨i1, i2, i3⟩ := ih (fun q hq => h q (by simp [hq])) _ g1
    exact ⟨i1, by rw [i2, g2], by rw [i3, g3]⟩

/-- **Gaussian94 round trip**, general form (symbols may repeat; only the NWChem-level
well-formedness is needed here) -/
theorem parseGbs_render_raw (elems : List (String × List Group)) (h : WFElemsNw elems) :
    parseGbs (renderGbs elems) = some (expectedGbs elems) := by
  obtain ⟨_, g2, g3⟩ := gbsFold_elems elems h {} rfl
  unfold parseGbs
  rw [renderGbs_eq]
  simp only [gbs_close_bad, g2, g3, expectedGbs]
  rfl

/-! ### the flattened observable -/

theorem flatten_cons (s : ShellRec) (shs : List ShellRec) :
    flatten (s :: shs) = (s.cols.map fun c => ⟨s.l, s.exps, [c]⟩) ++ flatten shs := by
  simp [flatten]

theorem flatten_single (shs : List ShellRec) (h : ∀ s ∈ shs, ∃ c, s.cols = [c]) :
    flatten shs = shs := by
  induction shs with
  | nil => rfl
  | cons s shs ih =>
    obtain ⟨c, hc⟩ := h s (by simp)
    rw [flatten_cons, ih (fun t ht => h t (by simp [ht]))]
    obtain ⟨l, e, cols⟩ := s
    simp only at hc
    subst hc
    rfl

theorem flatten_flatMap {α : Type} (xs : List α) (f : α → List ShellRec) :
    flatten (xs.flatMap f) = xs.flatMap fun x => flatten (f x) := by
  simp [flatten, List.flatMap_assoc]

theorem flatten_cols_single (shs : List ShellRec) : ∀ s ∈ flatten shs, ∃ c, s.cols = [c] := by
  intro s hs
  simp only [flatten, List.mem_flatMap, List.mem_map] at hs
  obtain ⟨t, _, c, _, rfl⟩ := hs
  exact ⟨c, rfl⟩

theorem flatten_flatten (shs : List ShellRec) : flatten (flatten shs) = flatten shs :=
  flatten_single _ (flatten_cols_single shs)

theorem gbsShellsOf_cols_single (ls rows) : ∀ s ∈ gbsShellsOf ls rows, ∃ c, s.cols = [c] := by
  intro s hs
  simp only [gbsShellsOf, List.mem_map] at hs
  obtain ⟨⟨l, i⟩, _, rfl⟩ := hs
  exact ⟨_, rfl⟩

/-- with one coefficient column per letter, the shells `parse_gbs` makes of a group are the
flattened denotation of the group -/
theorem gbsShells_eq_flatten {g : Group} (h : WFGroupGbs g) : g.gbsShells = flatten g.shells := by
  obtain ⟨ls, rows⟩ := g
  obtain ⟨⟨hne, _, hr, _⟩, hlen⟩ := h
  simp only at hne hr hlen
  match ls, hne, hlen with
  | [l], _, hlen =>
    match rows, hr, hlen with
    | r :: rs, _, hlen =>
      have h1 : r.2.length = 1 := hlen r (by simp)
      simp [Group.gbsShells, gbsShellsOf, Group.shells, finishGroup, flatten, columns, normRow, h1,
        List.range_succ]
  | l1 :: l2 :: ls, _, _ =>
    have : (Group.mk (l1 :: l2 :: ls) rows).shells = (Group.mk (l1 :: l2 :: ls) rows).gbsShells := rfl
    rw [this]
    exact (flatten_single _ (gbsShellsOf_cols_single _ _)).symm

theorem foldl_gbs_distinct (sh : Group → List ShellRec) (elems : List (String × List Group))
    (out : List (String × List ShellRec))
    (hd : (elems.map (·.1)).Nodup) (hout : ∀ e ∈ elems, e.1 ∉ out.map (·.1)) :
    elems.foldl (fun out e => e.2.foldl (fun o g => addShells o e.1 (sh g)) (addShells out e.1 [])) out =
      out ++ elems.map fun e => (e.1, e.2.flatMap sh) := by
  induction elems generalizing out with
  | nil => simp
  | cons e es ih =>
    obtain ⟨a, gs⟩ := e
    have ha : a ∉ out.map (·.1) := hout (a, gs) (by simp)
    rw [List.map_cons, List.nodup_cons] at hd
    simp only [List.foldl_cons, addShells_fresh ha, foldl_addShells_last' sh gs [] ha]
    rw [ih _ hd.2]
    · simp
    · intro e he hmem
      simp only [List.map_append, List.map_cons, List.map_nil, List.mem_append,
        List.mem_singleton] at hmem
      rcases hmem with hmem | hmem
      · exact hout e (by simp [he]) hmem
      · exact hd.1 (hmem ▸ List.mem_map.2 ⟨e, he, rfl⟩)

theorem expectedGbs_distinct (elems : List (String × List Group)) (hd : (elems.map (·.1)).Nodup) :
    expectedGbs elems = elems.map fun e => (e.1, e.2.flatMap Group.gbsShells) := by
  rw [expectedGbs, foldl_gbs_distinct Group.gbsShells elems [] hd (by simp)]
  simp

/-- well-formed `.gbs` description: one coefficient column per letter -/
def WFElemsGbs (elems : List (String × List Group)) : Prop :=
  ∀ e ∈ elems, WFSym e.1 ∧ ∀ g ∈ e.2, WFGroupGbs g

theorem WFElemsGbs.toNw {elems} (h : WFElemsGbs elems) : WFElemsNw elems :=
  fun e he => ⟨(h e he).1, fun g hg => ((h e he).2 g hg).1⟩

theorem WFGroupGbs.toWF {g : Group} (h : WFGroupGbs g) : WFGroup g := by
  obtain ⟨hnw, hlen⟩ := h
  have hw : g.width = g.ls.length := by
    obtain ⟨ls, rows⟩ := g
    match rows, hnw.2.2.1, hlen with
    | r :: rs, _, hlen => exact hlen r (by simp)
  exact ⟨hnw, fun r hr => by rw [hw]; exact hlen r hr, fun _ => hw⟩

theorem flatMap_congr' {α β : Type} (l : List α) (f g : α → List β) (h : ∀ x ∈ l, f x = g x) :
    l.flatMap f = l.flatMap g := by
  induction l with
  | nil => rfl
  | cons a l ih => simp [h a (by simp), ih fun x hx => h x (by simp [hx])]

theorem gbs_expected_flat (elems : List (String × List Group)) (h : WFElemsGbs elems) :
    (elems.map fun e => (e.1, e.2.flatMap Group.gbsShells)) =
      elems.map fun e => (e.1, flatten (e.2.flatMap Group.shells)) := by
  apply List.map_congr_left
  intro e he
  rw [flatten_flatMap]
  congr 1
  exact flatMap_congr' _ _ _ fun g hg => gbsShells_eq_flatten ((h e he).2 g hg)

/-- **Gaussian94 round trip** for pairwise distinct element symbols: the parse result is the
description, one record per coefficient column -/
theorem parseGbs_render (elems : List (String × List Group)) (h : WFElemsGbs elems)
    (hd : (elems.map (·.1)).Nodup) :
    parseGbs (renderGbs elems) = some (elems.map fun e => (e.1, flatten (e.2.flatMap Group.shells))) := by
  rw [parseGbs_render_raw elems h.toNw, expectedGbs_distinct elems hd, gbs_expected_flat elems h]

/-- the same against the flattened observable of the property -/
theorem parseGbs_render_flat (elems : List (String × List Group)) (h : WFElemsGbs elems)
    (hd : (elems.map (·.1)).Nodup) :
    (parseGbs (renderGbs elems)).map (fun o => o.map fun e => (e.1, flatten e.2)) =
      some (elems.map fun e => (e.1, flatten (e.2.flatMap Group.shells))) := by
  rw [parseGbs_render elems h hd]
  simp [flatten_flatten]

/-! ### noise in `.gbs` files -/

/-- a line `parse_gbs` ignores (blank lines and the terminator `****` included) -/
def NoiseGbs (ln : Line) : Prop :=
  headerGbsElem ln = none ∧ headerGbsShell ln = none ∧ dataLine ln = none

instance : DecidablePred NoiseGbs := fun ln => by unfold NoiseGbs; infer_instance

example : NoiseGbs ["****"] := by decide
example : NoiseGbs [] := by decide
example : NoiseGbs ["!", "comment", "line", "6-31G"] := by decide

/-- in the run from `t` no element line is hidden by a directly preceding element line -/
def SafeGbs (t : GbsState) : List Line → Prop
  | [] => True
  | ln :: rest => (t.prevHeader = true → headerGbsElem ln = none) ∧ SafeGbs (gbsStep t ln) rest

theorem safeGbs_append (t : GbsState) (A B : List Line) :
    SafeGbs t (A ++ B) ↔ SafeGbs t A ∧ SafeGbs (A.foldl gbsStep t) B := by
  induction A generalizing t with
  | nil => simp [SafeGbs]
  | cons a A ih => simp [SafeGbs, ih, and_assoc]

theorem safeGbs_of_no_header (t : GbsState) (L : List Line) (h : ∀ ln ∈ L, headerGbsElem ln = none) :
    SafeGbs t L := by
  induction L generalizing t with
  | nil => trivial
  | cons a A ih => exact ⟨fun _ => h a (by simp), ih _ fun l hl => h l (by simp [hl])⟩

structure GbsSim (s t : GbsState) : Prop where
  out : s.out = t.out
  atom : s.atom = t.atom
  cur : s.cur = t.cur
  rows : s.rows = t.rows
  bad : s.bad = t.bad
  ph : s.prevHeader = true → t.prevHeader = true

theorem gbsStep_noise {ln : Line} (h : NoiseGbs ln) (s : GbsState) :
    gbsStep s ln = s ∨ gbsStep s ln = { s with prevHeader := false } := by
  by_cases he : ln = []
  · left; simp [gbsStep, he]
  · right; simp [gbsStep, he, h.1, h.2.1, h.2.2]

theorem gbsSim_noise {ln : Line} (h : NoiseGbs ln) {s t : GbsState} (hs : GbsSim s t) :
    GbsSim (gbsStep s ln) t := by
  rcases gbsStep_noise h s with e | e <;> rw [e]
  · exact hs
  · exact ⟨hs.out, hs.atom, hs.cur, hs.rows, hs.bad, fun h => by simp at h⟩

theorem gbsSim_step {ln : Line} {s t : GbsState} (h : GbsSim s t)
    (hh : t.prevHeader = true → headerGbsElem ln = none) : GbsSim (gbsStep s ln) (gbsStep t ln) := by
  obtain ⟨so, sa, sc, sr, sp, sb⟩ := s
  obtain ⟨to, ta, tc, tr, tp, tb⟩ := t
  obtain ⟨h1, h2, h3, h4, h5, h6⟩ := h
  simp only at h1 h2 h3 h4 h5 h6 hh
  subst h1 h2 h3 h4 h5
  by_cases he : ln = []
  · simpa [gbsStep, he] using
      (⟨rfl, rfl, rfl, rfl, rfl, h6⟩ : GbsSim ⟨so, sa, sc, sr, sp, sb⟩ ⟨so, sa, sc, sr, tp, sb⟩)
  · cases tp with
    | false =>
      have : sp = false := by cases sp <;> simp_all
      subst this; exact ⟨rfl, rfl, rfl, rfl, rfl, id⟩
    | true =>
      have hn := hh rfl
      have e : gbsStep ⟨so, sa, sc, sr, sp, sb⟩ ln = gbsStep ⟨so, sa, sc, sr, true, sb⟩ ln := by
        cases sp <;> cases sa <;> cases sc <;> simp [gbsStep, GbsState.close, hn, he]
      rw [e]; exact ⟨rfl, rfl, rfl, rfl, rfl, id⟩

theorem gbsSim_fold {L' L : List Line} (h : Noisy NoiseGbs L' L) {s t : GbsState} (hs : GbsSim s t)
    (hsafe : SafeGbs t L) : GbsSim (L'.foldl gbsStep s) (L.foldl gbsStep t) := by
  induction h generalizing s t with
  | nil => exact hs
  | keep ln _ ih => exact ih (gbsSim_step hs hsafe.1) hsafe.2
  | ins hp _ ih => exact ih (gbsSim_noise hp hs) hsafe

theorem gbsSim_close {s t : GbsState} (h : GbsSim s t) :
    s.close.out = t.close.out ∧ s.close.bad = t.close.bad := by
  obtain ⟨so, sa, sc, sr, sp, sb⟩ := s
  obtain ⟨to, ta, tc, tr, tp, tb⟩ := t
  obtain ⟨h1, h2, h3, h4, h5, h6⟩ := h
  simp only at h1 h2 h3 h4 h5
  subst h1 h2 h3 h4 h5
  cases sa <;> cases sc <;> exact ⟨rfl, rfl⟩

/-- **noise robustness of `parse_gbs`** -/
theorem parseGbs_noisy {L' L : List Line} (h : Noisy NoiseGbs L' L) (hsafe : SafeGbs {} L) :
    parseGbs L' = parseGbs L := by
  have hsim := gbsSim_fold h (s := {}) (t := {}) ⟨rfl, rfl, rfl, rfl, rfl, id⟩ hsafe
  obtain ⟨e1, e2⟩ := gbsSim_close hsim
  simp only [parseGbs, e1, e2]

theorem safeGbs_elem {e : String × List Group} (hg : ∀ g ∈ e.2, WFGroupNw g) (s : GbsState)
    (hs : s.prevHeader = false) : SafeGbs s (renderGbsElem e) := by
  show SafeGbs s ([e.1, "0"] :: (e.2.flatMap renderGbsGroup ++ [["****"]]))
  refine ⟨fun h => by simp [hs] at h, safeGbs_of_no_header _ _ ?_⟩
  intro ln hln
  simp only [List.mem_append, List.mem_flatMap, List.mem_singleton] at hln
  rcases hln with ⟨g, hgm, hln⟩ | rfl
  · simp only [renderGbsGroup, List.mem_cons, List.mem_map] at hln
    rcases hln with rfl | ⟨r, hr, rfl⟩
    · rfl
    · exact headerGbsElem_row ((hg g hgm).2.2.2 r hr)
  · rfl

theorem safeGbs_elems (elems : List (String × List Group)) (h : WFElemsNw elems) (s : GbsState)
    (hs : s.prevHeader = false) : SafeGbs s (elems.flatMap renderGbsElem) := by
  induction elems generalizing s with
  | nil => trivial
  | cons e es ih =>
    rw [List.flatMap_cons, safeGbs_append]
    exact ⟨safeGbs_elem (h e (by simp)).2 s hs,
      ih (fun q hq => h q (by simp [hq])) _ (gbsFold_elem (h e (by simp)).1 (h e (by simp)).2 s hs).1⟩

theorem safeGbs_render (elems : List (String × List Group)) (h : WFElemsNw elems) :
    SafeGbs {} (renderGbs elems) := safeGbs_elems elems h {} rfl

/-- **Gaussian94 round trip with arbitrary noise** inserted anywhere -/
theorem parseGbs_render_noisy (elems : List (String × List Group)) (h : WFElemsGbs elems)
    (hd : (elems.map (·.1)).Nodup) {L' : List Line} (hL : Noisy NoiseGbs L' (renderGbs elems)) :
    parseGbs L' = some (elems.map fun e => (e.1, flatten (e.2.flatMap Group.shells))) := by
  rw [parseGbs_noisy hL (safeGbs_render elems h.toNw), parseGbs_render elems h hd]

/-- preamble of any length (0, 1, many lines) and trailing noise -/
theorem parseGbs_render_preamble (elems : List (String × List Group)) (h : WFElemsNw elems)
    (pre post : List Line) (hpre : ∀ ln ∈ pre, NoiseGbs ln) (hpost : ∀ ln ∈ post, NoiseGbs ln) :
    parseGbs (pre ++ renderGbs elems ++ post) = parseGbs (renderGbs elems) := by
  apply parseGbs_noisy _ (safeGbs_render elems h)
  simpa using ((Noisy.of_all hpre).append (Noisy.refl _)).append (Noisy.of_all hpost)

/-! ## `make_contractions` -/

/-- the shells of every atom, `none` if an atom is not in the basis dictionary -/
def lookupShells (basis : List (String × List ShellRec)) (atoms : List String) :
    Option (List (List ShellRec)) :=
  atoms.mapM fun a => (basis.find? (·.1 == a)).map (·.2)

/-- number of shells of the molecule -/
def totalShells (sl : List (List ShellRec)) : Nat := (sl.map List.length).sum

/-- all shells in atom order, tagged with the index of their atom -/
def flatShells (sl : List (List ShellRec)) : List (Nat × ShellRec) :=
  (sl.zipIdx).flatMap fun (shs, k) => shs.map fun s => (k, s)

def mkShell (p : (Nat × ShellRec) × String) : MadeShell :=
  ⟨p.1.2.l, p.1.1, p.1.2.exps, p.1.2.cols, p.2⟩

theorem makeContractions_eq (basis atoms ct) :
    makeContractions basis atoms ct =
      match lookupShells basis atoms with
      | none => none
      | some sl =>
        match (match ct with
          | .one s => (normCoordType s).map fun t => List.replicate (totalShells sl) t
          | .many l => if l.length == totalShells sl then l.mapM normCoordType else none) with
        | none => none
        | some ts => some (((flatShells sl).zip ts).map mkShell) := by
  have hmk : (fun (x : (Nat × ShellRec) × String) =>
      match x with | ((k, s), t) => (⟨s.l, k, s.exps, s.cols, t⟩ : MadeShell)) = mkShell := by
    funext ⟨⟨k, s⟩, t⟩; rfl
  unfold makeContractions lookupShells
  simp only [hmk]
  generalize List.mapM (m := Option) (fun a => (basis.find? (·.1 == a)).map (·.2)) atoms = r
  cases r with
  | none => rfl
  | some sl => cases ct <;> rfl

theorem mapM_option_length {α β : Type} {f : α → Option β} :
    ∀ {l : List α} {r : List β}, l.mapM f = some r → r.length = l.length := by
  intro l
  induction l with
  | nil => intro r h; simp at h; subst h; rfl
  | cons a l ih =>
    intro r h
    simp only [List.mapM_cons, Option.pure_def, Option.bind_eq_bind, Option.bind_eq_some_iff] at h
    obtain ⟨b, _, bs, hbs, hr⟩ := h
    simp only [Option.some.injEq] at hr
    subst hr
    simp [ih hbs]

theorem mapM_option_none {α β : Type} {f : α → Option β} {l : List α} {x : α} (hx : x ∈ l)
    (h : f x = none) : l.mapM f = none := by
  induction l with
  | nil => cases hx
  | cons a l ih =>
    rcases List.mem_cons.1 hx with rfl | hx
    · simp [List.mapM_cons, h]
    · simp only [List.mapM_cons, ih hx]
      cases f a <;> rfl

theorem mapM_option_replicate {α β : Type} {f : α → Option β} {x : α} {y : β} (h : f x = some y)
    (n : Nat) : (List.replicate n x).mapM f = some (List.replicate n y) := by
  induction n with
  | zero => rfl
  | succ n ih => simp [List.replicate_succ, List.mapM_cons, h, ih]

theorem length_flatShells_from (sl : List (List ShellRec)) (k : Nat) :
    ((sl.zipIdx k).flatMap fun (shs, k) => shs.map fun s => (k, s)).length = totalShells sl := by
  induction sl generalizing k with
  | nil => rfl
  | cons a sl ih =>
    simp only [List.zipIdx_cons, List.flatMap_cons, List.length_append, List.length_map, ih,
      totalShells, List.map_cons, List.sum_cons]

theorem length_flatShells (sl : List (List ShellRec)) : (flatShells sl).length = totalShells sl :=
  length_flatShells_from sl 0

/-- **`make_contractions`, sequence of coordinate types**: shell `j` of atom `k` keeps its data, gets
`atomIndex = k`, and the coordinate types are consumed in order -/
theorem makeContractions_many {basis atoms sl} {ts ns : List String}
    (hl : lookupShells basis atoms = some sl) (hlen : ts.length = totalShells sl)
    (hts : ts.mapM normCoordType = some ns) :
    makeContractions basis atoms (.many ts) = some (((flatShells sl).zip ns).map mkShell) := by
  rw [makeContractions_eq, hl]
  simp [hlen, hts]

/-- **`make_contractions`, one coordinate type**: every shell gets it -/
theorem makeContractions_one {basis atoms sl} {s t : String}
    (hl : lookupShells basis atoms = some sl) (hs : normCoordType s = some t) :
    makeContractions basis atoms (.one s) =
      some ((flatShells sl).map fun p => ⟨p.2.l, p.1, p.2.exps, p.2.cols, t⟩) := by
  rw [makeContractions_eq, hl]
  simp only [hs, Option.map_some, Option.some.injEq]
  rw [← length_flatShells]
  generalize flatShells sl = fl
  induction fl with
  | nil => rfl
  | cons a fl ih => simp [List.replicate_succ, ih, mkShell]

/-- on success there is one entry per shell of the molecule -/
theorem makeContractions_length {basis atoms ct sl res}
    (hl : lookupShells basis atoms = some sl) (h : makeContractions basis atoms ct = some res) :
    res.length = totalShells sl := by
  rw [makeContractions_eq, hl] at h
  cases ct with
  | one s =>
    cases hs : normCoordType s with
    | none => simp [hs] at h
    | some t =>
      simp only [hs, Option.map_some, Option.some.injEq] at h
      subst h
      simp [length_flatShells]
  | many ts =>
    by_cases hlen : ts.length = totalShells sl
    · cases hts : ts.mapM normCoordType with
      | none => simp [hlen, hts] at h
      | some ns =>
        simp only [hlen, hts, beq_self_eq_true, if_true, Option.some.injEq] at h
        subst h
        simp [length_flatShells, mapM_option_length hts, hlen]
    · simp [hlen] at h

/-- a single spelling is the same as the sequence repeating it -/
theorem makeContractions_one_eq_many {basis atoms sl} (s : String)
    (hl : lookupShells basis atoms = some sl) (hv : 0 < totalShells sl ∨ (normCoordType s).isSome) :
    makeContractions basis atoms (.one s) =
      makeContractions basis atoms (.many (List.replicate (totalShells sl) s)) := by
  rw [makeContractions_eq, makeContractions_eq, hl]
  cases hs : normCoordType s with
  | some t => simp [mapM_option_replicate hs, hs]
  | none =>
    rcases hv with hv | hv
    · have : (List.replicate (totalShells sl) s).mapM normCoordType = none :=
        mapM_option_none (x := s) (by simp [List.mem_replicate]; omega) hs
      simp [this, hs]
    · simp [hs] at hv

theorem flatShells_data_from (sl : List (List ShellRec)) (k : Nat) :
    (((sl.zipIdx k).flatMap fun (shs, k) => shs.map fun s => (k, s)).map
      fun p => (p.2.l, p.2.exps, p.2.cols)) = sl.flatten.map (fun s => (s.l, s.exps, s.cols)) := by
  induction sl generalizing k with
  | nil => rfl
  | cons a sl ih =>
    simp only [List.zipIdx_cons, List.flatMap_cons, List.map_append, List.flatten_cons,
      List.map_map]
    rw [ih]
    simp [Function.comp_def]

/-- atom-index, data and coordinate-type views of the successful result -/
theorem makeContractions_many_views {basis atoms sl} {ts ns : List String}
    (hl : lookupShells basis atoms = some sl) (hlen : ts.length = totalShells sl)
    (hts : ts.mapM normCoordType = some ns) :
    ∃ res, makeContractions basis atoms (.many ts) = some res ∧
      res.map (·.atomIndex) = ((sl.zipIdx).flatMap fun (shs, k) => List.replicate shs.length k) ∧
      res.map (fun m => (m.l, m.exps, m.cols)) = sl.flatten.map (fun s => (s.l, s.exps, s.cols)) ∧
      res.map (·.coordType) = ns := by
  refine ⟨_, makeContractions_many hl hlen hts, ?_, ?_, ?_⟩
  all_goals
    have hlen2 : ns.length = (flatShells sl).length := by
      rw [length_flatShells, mapM_option_length hts, hlen]
  · have : (((flatShells sl).zip ns).map mkShell).map (·.atomIndex) =
        (((flatShells sl).zip ns).map Prod.fst).map (·.1) := by simp [mkShell, Function.comp_def]
    rw [this, List.map_fst_zip (by omega)]
    simp [flatShells, List.map_flatMap, Function.comp_def, List.map_const']
  · have : (((flatShells sl).zip ns).map mkShell).map (fun m => (m.l, m.exps, m.cols)) =
        (((flatShells sl).zip ns).map Prod.fst).map (fun p => (p.2.l, p.2.exps, p.2.cols)) := by
      simp [mkShell, Function.comp_def]
    rw [this, List.map_fst_zip (by omega)]
    exact flatShells_data_from sl 0
  · have : (((flatShells sl).zip ns).map mkShell).map (·.coordType) =
        ((flatShells sl).zip ns).map Prod.snd := by simp [mkShell, Function.comp_def]
    rw [this, List.map_snd_zip (by omega)]

/-! ### rejection -/

theorem makeContractions_unknown_atom {basis atoms} (ct : CoordTypes) {a : String} (ha : a ∈ atoms)
    (h : basis.find? (·.1 == a) = none) : makeContractions basis atoms ct = none := by
  have : lookupShells basis atoms = none := by
    unfold lookupShells
    exact mapM_option_none ha (by simp [h])
  rw [makeContractions_eq, this]

theorem makeContractions_wrong_length {basis atoms sl} {ts : List String}
    (hl : lookupShells basis atoms = some sl) (hlen : ts.length ≠ totalShells sl) :
    makeContractions basis atoms (.many ts) = none := by
  rw [makeContractions_eq, hl]; simp [hlen]

theorem makeContractions_bad_type_many {basis atoms} {ts : List String} {t : String} (ht : t ∈ ts)
    (hbad : normCoordType t = none) : makeContractions basis atoms (.many ts) = none := by
  rw [makeContractions_eq]
  cases lookupShells basis atoms with
  | none => rfl
  | some sl =>
    simp [mapM_option_none ht hbad]

theorem makeContractions_bad_type_one {basis atoms} {s : String} (hbad : normCoordType s = none) :
    makeContractions basis atoms (.one s) = none := by
  rw [makeContractions_eq]
  cases lookupShells basis atoms with
  | none => rfl
  | some sl => simp [hbad]

example : normCoordType "cartesian" = some "cartesian" ∧ normCoordType "c" = some "cartesian" ∧
    normCoordType "p" = some "spherical" ∧ normCoordType "Cartesian" = none ∧
    normCoordType "" = none := by decide

/-! ## the hypotheses are satisfiable -/

instance (elems : List (String × List Group)) : Decidable (WFElemsNw elems) := by
  unfold WFElemsNw; infer_instance
instance (elems : List (String × List Group)) : Decidable (WFElems elems) := by
  unfold WFElems; infer_instance
instance (elems : List (String × List Group)) : Decidable (WFElemsGbs elems) := by
  unfold WFElemsGbs; infer_instance

/-- hydrogen with an S shell (D exponents), carbon with an SP shell and a D shell -/
def demoElems : List (String × List Group) :=
  [("H", [⟨[0], [("1.301D+01", ["3.34946D-02"]), ("1.962", ["0.2347"])]⟩]),
   ("C", [⟨[0, 1], [("2.94", ["-0.0999", "0.1559"]), ("0.6834", ["0.3995", "0.6076"])]⟩,
          ⟨[2], [("0.8", ["1.0"])]⟩])]

example : WFElems demoElems := by decide
example : WFElemsGbs demoElems := by decide
example : (demoElems.map (·.1)).Nodup := by decide
example : ∀ e ∈ demoElems, e.2 ≠ [] := by decide
/-- a generalized contraction (two columns under one letter) is well formed for NWChem -/
example : WFGroup ⟨[1], [("1.5", ["0.1", "0.2"]), ("0.5", ["0.3", "0.4"])]⟩ := by decide
example : NoiseNw ["BASIS", "\"ao", "basis\"", "PRINT"] ∧ NoiseNw ["#BASIS"] ∧ NoiseNw ["END"] ∧
    NoiseNw [] := by decide

/-- the round-trip theorems applied to the example -/
example : parseNw (renderNw demoElems) =
    some (demoElems.map fun e => (e.1, e.2.flatMap Group.shells)) :=
  parseNw_render_distinct demoElems (WFElems.toNw (by decide)) (by decide) (by decide)

example : parseNw ([["BASIS", "SPHERICAL", "PRINT"], []] ++ renderNw demoElems ++ [["END"]]) =
    some (demoElems.map fun e => (e.1, e.2.flatMap Group.shells)) := by
  rw [parseNw_render_preamble demoElems (WFElems.toNw (by decide)) _ _ (by decide) (by decide)]
  exact parseNw_render_distinct demoElems (WFElems.toNw (by decide)) (by decide) (by decide)

example : parseGbs (renderGbs demoElems) =
    some (demoElems.map fun e => (e.1, flatten (e.2.flatMap Group.shells))) :=
  parseGbs_render demoElems (by decide) (by decide)

/-! ## the repaired defect: a file without preamble

Old behaviour (simplified): the text before the first element was only dropped together with a
newline, so with *zero* preamble lines the first header is not preceded by a newline and is lost.
This is the state machine started with `prevHeader := true`. -/

def parseNwOld (lines : List Line) : Option (List (String × List ShellRec)) :=
  let s := (lines.foldl nwStep { prevHeader := true }).close
  if s.bad then none else some s.out

def demoFile : List Line := [["H", "S"], ["1.0", "0.5"], ["H", "P"], ["2.0", "1.0"]]

/-- the repaired parser returns both shells -/
theorem parseNw_demoFile :
    parseNw demoFile = some [("H", [⟨0, ["1.0"], [["0.5"]]⟩, ⟨1, ["2.0"], [["1.0"]]⟩])] := by decide

/-- the old behaviour loses the first shell of a file without preamble -/
theorem parseNwOld_demoFile :
    parseNwOld demoFile = some [("H", [⟨1, ["2.0"], [["1.0"]]⟩])] := by decide

/-- with a preamble line the old behaviour agrees -/
theorem parseNwOld_preamble : parseNwOld (["BASIS", "SPHERICAL", "PRINT"] :: demoFile) = parseNw demoFile := by
  decide


end GB.Parse
