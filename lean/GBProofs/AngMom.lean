import GBProofs.Definiteness
import GBProofs.TranslationLaws
import GBProofs.TraceLaws

/-!
# C08 / C12 — momentum and angular-momentum blocks: exact integrals, anti-symmetry, origin law

`momentumBlock s t` / `angmomBlock s t` are the real arrays `∫ φ_a ∂_k φ_b` / `∫ φ_a (r×∇)_k φ_b`
(the arrays of the code are `-i` times them).  Hypotheses everywhere: positive exponents, and the
left component has no exponent above the angular momentum of its shell.

* `momentumBlock_eq_integral`, `angmomBlock_eq_integral` (+ `_x`, `_y`, `_z` written out) :
  block `k < 3` is the integral over `ℝ × ℝ × ℝ` of `shellFn s ma ca` times `∂_k` resp. `(r × ∇)_k`
  (`rotDerivFn`, about the coordinate origin) of the right contracted function;
* `momentumBlock_antisymm`, `angmomBlock_antisymm` : `M(s,t)[ma ca mb cb] = − M(t,s)[mb cb ma ca]`;
  `momentumEntry_hermitian`, `angmomEntry_hermitian` : the complex entries `-i ·` are Hermitian;
* `angmomBlock_translate` (origin law, C12) : a common translation `d` of both shells adds `(d × P)_k`;
  `momentumBlock_translate` : the momentum blocks are translation invariant;
* `momentumBlock_eq_integral_E3`, `momentumBlock_moved` : under an affine isometry `g` of `E3` with
  linear part `R`, `P'_k = Σ_j R_kj · (representation-transformed P_j)`.

Machinery: `kw1` (1-D factor `(x-O)^p ∂^k g_a ∂^l g_b`), `Wint` (contracted weighted two-sided
integral), weighted integration by parts `Wint_ibp_x/_y/_z` (weight independent of the axis).
-/
open MeasureTheory Real Polynomial

namespace GB

/-! ## 1. One-dimensional weighted two-sided factor -/

/-- `(x-O)^p · ∂^k[(x-A)^i e^{-a(x-A)²}] · ∂^l[(x-B)^j e^{-b(x-B)²}]` -/
noncomputable def kw1 (a b A B O : ℝ) (i j k l p : ℕ) (x : ℝ) : ℝ :=
  (x - O)^p * k1 a b A B i j k l x

lemma kw1_zero (a b A B O : ℝ) (i j k l : ℕ) : kw1 a b A B O i j k l 0 = k1 a b A B i j k l := by
  funext x; simp [kw1]

lemma kw1_eq_g1 (a b A B O : ℝ) (i j p : ℕ) : kw1 a b A B O i j 0 0 p = g1 a b A B O i j p := by
  funext x
  simp only [kw1, k1, iteratedDeriv_zero, prim1, g1]
  ring

lemma kw1_eq_h1 (a b A B O : ℝ) (i j l : ℕ) : kw1 a b A B O i j 0 l 0 = h1 a b A B i j l := by
  funext x
  simp only [kw1, k1, iteratedDeriv_zero, prim1, h1, pow_zero, one_mul]

lemma integrable_kw1 (a b A B O : ℝ) (ha : 0 < a) (hb : 0 < b) (i j k l p : ℕ) :
    Integrable (kw1 a b A B O i j k l p) := by
  have h := integrable_gaussPoly_mul a b A B ha hb
    ((X + C ((a * A + b * B) / (a + b) - O))^p
      * (Dtw a ((a * A + b * B) / (a + b) - A))^[k] ((X + C ((a * A + b * B) / (a + b) - A))^i))
    ((Dtw b ((a * A + b * B) / (a + b) - B))^[l] ((X + C ((a * A + b * B) / (a + b) - B))^j))
  refine h.congr (Filter.Eventually.of_forall fun x => ?_)
  simp only [kw1, k1_eq, gaussPoly, eval_mul, eval_pow, eval_add, eval_X, eval_C]
  ring

/-! ## 2. Three-dimensional weighted primitive products -/

lemma primW_eq (a b : ℝ) (A B O : ℕ → ℝ) (ca cb o o' p : Comp) (r : ℝ × ℝ × ℝ) :
    primDerivFn a A ca o r * primDerivFn b B cb o' r * monoFn O p r
      = kw1 a b (A 0) (B 0) (O 0) ca.1 cb.1 o.1 o'.1 p.1 r.1
        * (kw1 a b (A 1) (B 1) (O 1) ca.2.1 cb.2.1 o.2.1 o'.2.1 p.2.1 r.2.1
          * kw1 a b (A 2) (B 2) (O 2) ca.2.2 cb.2.2 o.2.2 o'.2.2 p.2.2 r.2.2) := by
  unfold primDerivFn monoFn kw1 k1
  ring

lemma integrable_primW (a b : ℝ) (A B O : ℕ → ℝ) (ca cb o o' p : Comp) (ha : 0 < a) (hb : 0 < b) :
    Integrable (fun r : ℝ × ℝ × ℝ =>
      primDerivFn a A ca o r * primDerivFn b B cb o' r * monoFn O p r) := by
  simp_rw [primW_eq]
  have hyz : Integrable (fun q : ℝ × ℝ =>
      kw1 a b (A 1) (B 1) (O 1) ca.2.1 cb.2.1 o.2.1 o'.2.1 p.2.1 q.1
        * kw1 a b (A 2) (B 2) (O 2) ca.2.2 cb.2.2 o.2.2 o'.2.2 p.2.2 q.2) :=
    Integrable.mul_prod (integrable_kw1 a b _ _ _ ha hb _ _ _ _ _)
      (integrable_kw1 a b _ _ _ ha hb _ _ _ _ _)
  exact Integrable.mul_prod
    (integrable_kw1 a b (A 0) (B 0) (O 0) ha hb ca.1 cb.1 o.1 o'.1 p.1) hyz

theorem integral_primW (a b : ℝ) (A B O : ℕ → ℝ) (ca cb o o' p : Comp) :
    ∫ r : ℝ × ℝ × ℝ, primDerivFn a A ca o r * primDerivFn b B cb o' r * monoFn O p r
      = (∫ x, kw1 a b (A 0) (B 0) (O 0) ca.1 cb.1 o.1 o'.1 p.1 x)
        * (∫ x, kw1 a b (A 1) (B 1) (O 1) ca.2.1 cb.2.1 o.2.1 o'.2.1 p.2.1 x)
        * (∫ x, kw1 a b (A 2) (B 2) (O 2) ca.2.2 cb.2.2 o.2.2 o'.2.2 p.2.2 x) := by
  simp_rw [primW_eq]
  rw [Measure.volume_eq_prod ℝ (ℝ × ℝ),
    integral_prod_mul (kw1 a b (A 0) (B 0) (O 0) ca.1 cb.1 o.1 o'.1 p.1)
      (fun q : ℝ × ℝ => kw1 a b (A 1) (B 1) (O 1) ca.2.1 cb.2.1 o.2.1 o'.2.1 p.2.1 q.1
          * kw1 a b (A 2) (B 2) (O 2) ca.2.2 cb.2.2 o.2.2 o'.2.2 p.2.2 q.2),
    Measure.volume_eq_prod ℝ ℝ, integral_prod_mul, mul_assoc]

/-- weighted primitive integration by parts, `x` axis (weight independent of `x`) -/
theorem primW_ibp_x (a b : ℝ) (A B O : ℕ → ℝ) (ca cb : Comp) (ha : 0 < a) (hb : 0 < b)
    (ox oy oz px py pz qy qz : ℕ) :
    ∫ r : ℝ × ℝ × ℝ, primDerivFn a A ca (ox, oy, oz) r * primDerivFn b B cb (px + 1, py, pz) r
        * monoFn O (0, qy, qz) r
      = - ∫ r : ℝ × ℝ × ℝ, primDerivFn a A ca (ox + 1, oy, oz) r * primDerivFn b B cb (px, py, pz) r
        * monoFn O (0, qy, qz) r := by
  rw [integral_primW, integral_primW]
  simp only [kw1_zero]
  rw [k1_ibp a b _ _ ha hb]
  ring

theorem primW_ibp_y (a b : ℝ) (A B O : ℕ → ℝ) (ca cb : Comp) (ha : 0 < a) (hb : 0 < b)
    (ox oy oz px py pz qx qz : ℕ) :
    ∫ r : ℝ × ℝ × ℝ, primDerivFn a A ca (ox, oy, oz) r * primDerivFn b B cb (px, py + 1, pz) r
        * monoFn O (qx, 0, qz) r
      = - ∫ r : ℝ × ℝ × ℝ, primDerivFn a A ca (ox, oy + 1, oz) r * primDerivFn b B cb (px, py, pz) r
        * monoFn O (qx, 0, qz) r := by
  rw [integral_primW, integral_primW]
  simp only [kw1_zero]
  rw [k1_ibp a b _ _ ha hb]
  ring

theorem primW_ibp_z (a b : ℝ) (A B O : ℕ → ℝ) (ca cb : Comp) (ha : 0 < a) (hb : 0 < b)
    (ox oy oz px py pz qx qy : ℕ) :
    ∫ r : ℝ × ℝ × ℝ, primDerivFn a A ca (ox, oy, oz) r * primDerivFn b B cb (px, py, pz + 1) r
        * monoFn O (qx, qy, 0) r
      = - ∫ r : ℝ × ℝ × ℝ, primDerivFn a A ca (ox, oy, oz + 1) r * primDerivFn b B cb (px, py, pz) r
        * monoFn O (qx, qy, 0) r := by
  rw [integral_primW, integral_primW]
  simp only [kw1_zero]
  rw [k1_ibp a b _ _ ha hb]
  ring

/-! ## 3. Contracted weighted products -/

lemma shellW_expand (s t : Shell ℝ) (ma ca mb cb : ℕ) (o o' : Comp) (w : ℝ × ℝ × ℝ → ℝ)
    (r : ℝ × ℝ × ℝ) :
    shellDerivFn s ma ca o r * shellDerivFn t mb cb o' r * w r
      = ∑ ka ∈ Finset.range s.nprim, ∑ kb ∈ Finset.range t.nprim,
          (cN s ma ca ka * cN t mb cb kb)
            * (primDerivFn (s.exp! ka) s.ctr (s.comp! ca) o r
                * primDerivFn (t.exp! kb) t.ctr (t.comp! cb) o' r * w r) := by
  rw [shellDeriv_mul_expand, Finset.sum_mul]
  refine Finset.sum_congr rfl fun ka _ => ?_
  rw [Finset.sum_mul]
  refine Finset.sum_congr rfl fun kb _ => ?_
  ring

lemma integrable_shellW (s t : Shell ℝ) (O : ℕ → ℝ) (o o' p : Comp) (ma ca mb cb : ℕ)
    (hs : ∀ k < s.nprim, 0 < s.exp! k) (ht : ∀ k < t.nprim, 0 < t.exp! k) :
    Integrable (fun r : ℝ × ℝ × ℝ =>
      shellDerivFn s ma ca o r * shellDerivFn t mb cb o' r * monoFn O p r) := by
  simp_rw [shellW_expand]
  refine integrable_finsetSum _ fun ka hka => integrable_finsetSum _ fun kb hkb => ?_
  exact (integrable_primW _ _ _ _ _ _ _ _ _ _ (hs ka (Finset.mem_range.mp hka))
    (ht kb (Finset.mem_range.mp hkb))).const_mul _

lemma integral_shellW (s t : Shell ℝ) (O : ℕ → ℝ) (o o' p : Comp) (ma ca mb cb : ℕ)
    (hs : ∀ k < s.nprim, 0 < s.exp! k) (ht : ∀ k < t.nprim, 0 < t.exp! k) :
    ∫ r : ℝ × ℝ × ℝ, shellDerivFn s ma ca o r * shellDerivFn t mb cb o' r * monoFn O p r
      = ∑ ka ∈ Finset.range s.nprim, ∑ kb ∈ Finset.range t.nprim,
          (cN s ma ca ka * cN t mb cb kb)
            * ∫ r : ℝ × ℝ × ℝ, primDerivFn (s.exp! ka) s.ctr (s.comp! ca) o r
                * primDerivFn (t.exp! kb) t.ctr (t.comp! cb) o' r * monoFn O p r := by
  simp_rw [shellW_expand]
  rw [integral_finsetSum _ fun ka hka => integrable_finsetSum _ fun kb hkb =>
    (integrable_primW _ _ _ _ _ _ _ _ _ _ (hs ka (Finset.mem_range.mp hka))
      (ht kb (Finset.mem_range.mp hkb))).const_mul _]
  refine Finset.sum_congr rfl fun ka hka => ?_
  rw [integral_finsetSum _ fun kb hkb =>
    (integrable_primW _ _ _ _ _ _ _ _ _ _ (hs ka (Finset.mem_range.mp hka))
      (ht kb (Finset.mem_range.mp hkb))).const_mul _]
  refine Finset.sum_congr rfl fun kb hkb => ?_
  rw [integral_const_mul]

/-- the weighted two-sided contracted integral `∫ ∂^o φ_a · ∂^{o'} φ_b · r^p` (moment about 0) -/
noncomputable def Wint (s t : Shell ℝ) (ma ca mb cb : ℕ) (o o' p : Comp) : ℝ :=
  ∫ r : ℝ × ℝ × ℝ, shellDerivFn s ma ca o r * shellDerivFn t mb cb o' r * monoFn (fun _ => 0) p r

lemma Wint_comm (s t : Shell ℝ) (ma ca mb cb : ℕ) (o o' p : Comp) :
    Wint s t ma ca mb cb o o' p = Wint t s mb cb ma ca o' o p := by
  unfold Wint
  refine integral_congr_ae (Filter.Eventually.of_forall fun r => ?_)
  ring

theorem Wint_ibp_x (s t : Shell ℝ) (ma ca mb cb : ℕ)
    (hs : ∀ k < s.nprim, 0 < s.exp! k) (ht : ∀ k < t.nprim, 0 < t.exp! k)
    (ox oy oz px py pz qy qz : ℕ) :
    Wint s t ma ca mb cb (ox, oy, oz) (px + 1, py, pz) (0, qy, qz)
      = - Wint s t ma ca mb cb (ox + 1, oy, oz) (px, py, pz) (0, qy, qz) := by
  unfold Wint
  rw [integral_shellW s t _ _ _ _ ma ca mb cb hs ht,
    integral_shellW s t _ _ _ _ ma ca mb cb hs ht, ← Finset.sum_neg_distrib]
  refine Finset.sum_congr rfl fun ka hka => ?_
  rw [← Finset.sum_neg_distrib]
  refine Finset.sum_congr rfl fun kb hkb => ?_
  rw [primW_ibp_x _ _ _ _ _ _ _ (hs ka (Finset.mem_range.mp hka)) (ht kb (Finset.mem_range.mp hkb))]
  ring

theorem Wint_ibp_y (s t : Shell ℝ) (ma ca mb cb : ℕ)
    (hs : ∀ k < s.nprim, 0 < s.exp! k) (ht : ∀ k < t.nprim, 0 < t.exp! k)
    (ox oy oz px py pz qx qz : ℕ) :
    Wint s t ma ca mb cb (ox, oy, oz) (px, py + 1, pz) (qx, 0, qz)
      = - Wint s t ma ca mb cb (ox, oy + 1, oz) (px, py, pz) (qx, 0, qz) := by
  unfold Wint
  rw [integral_shellW s t _ _ _ _ ma ca mb cb hs ht,
    integral_shellW s t _ _ _ _ ma ca mb cb hs ht, ← Finset.sum_neg_distrib]
  refine Finset.sum_congr rfl fun ka hka => ?_
  rw [← Finset.sum_neg_distrib]
  refine Finset.sum_congr rfl fun kb hkb => ?_
  rw [primW_ibp_y _ _ _ _ _ _ _ (hs ka (Finset.mem_range.mp hka)) (ht kb (Finset.mem_range.mp hkb))]
  ring

theorem Wint_ibp_z (s t : Shell ℝ) (ma ca mb cb : ℕ)
    (hs : ∀ k < s.nprim, 0 < s.exp! k) (ht : ∀ k < t.nprim, 0 < t.exp! k)
    (ox oy oz px py pz qx qy : ℕ) :
    Wint s t ma ca mb cb (ox, oy, oz) (px, py, pz + 1) (qx, qy, 0)
      = - Wint s t ma ca mb cb (ox, oy, oz + 1) (px, py, pz) (qx, qy, 0) := by
  unfold Wint
  rw [integral_shellW s t _ _ _ _ ma ca mb cb hs ht,
    integral_shellW s t _ _ _ _ ma ca mb cb hs ht, ← Finset.sum_neg_distrib]
  refine Finset.sum_congr rfl fun ka hka => ?_
  rw [← Finset.sum_neg_distrib]
  refine Finset.sum_congr rfl fun kb hkb => ?_
  rw [primW_ibp_z _ _ _ _ _ _ _ (hs ka (Finset.mem_range.mp hka)) (ht kb (Finset.mem_range.mp hkb))]
  ring


/-! ## 4. The blocks of the model in terms of `Wint` -/

lemma momAx_entry_kw1 (s t : Shell ℝ) (nk ka kb axis k j i : ℕ)
    (ha : 0 < s.exp! ka) (hb : 0 < t.exp! kb) :
    (momAx s t (fun _ => Num.nat 0) nk ka kb axis).get3 k j i
      = ∫ x, kw1 (s.exp! ka) (t.exp! kb) (s.ctr axis) (t.ctr axis) 0 i j 0 0 k x := by
  rw [C01.table_entry_eq_integral s t _ nk ka kb axis k j i ha hb, kw1_eq_g1]
  simp only [g1, num_nat, Nat.cast_zero]

lemma diffAx_entry_kw1 (s t : Shell ℝ) (dmax ka kb axis k j i : ℕ) (O : ℝ)
    (ha : 0 < s.exp! ka) (hb : 0 < t.exp! kb) (hk : k ≤ dmax) (hi : i ≤ s.l) :
    (diffAx s t dmax ka kb axis).get3 k j i
      = ∫ x, kw1 (s.exp! ka) (t.exp! kb) (s.ctr axis) (t.ctr axis) O i j 0 k 0 x := by
  rw [C02.table_entry_eq_integral s t dmax ka kb axis k j i ha hb hk hi, kw1_eq_h1]
  rfl

/-- `∫ φ_a ∂^o φ_b` as a `Wint` -/
lemma integral_shell_deriv_eq_Wint (s t : Shell ℝ) (ma ca mb cb : ℕ) (o : Comp) :
    ∫ r : ℝ × ℝ × ℝ, shellFn s ma ca r * shellDerivFn t mb cb o r
      = Wint s t ma ca mb cb (0,0,0) o (0,0,0) := by
  unfold Wint
  refine integral_congr_ae (Filter.Eventually.of_forall fun r => ?_)
  simp only [monoFn, shellDerivFn_zero, pow_zero, mul_one]


/-- `x` component of the angular-momentum block: `∫ φ_a (y ∂_z − z ∂_y) φ_b` as `Wint`s -/
theorem angmomBlock_eq_Wint_x (s t : Shell ℝ) (ma ca mb cb : ℕ)
    (hs : ∀ k < s.nprim, 0 < s.exp! k) (ht : ∀ k < t.nprim, 0 < t.exp! k)
    (hc : (s.comp! ca).1 ≤ s.l ∧ (s.comp! ca).2.1 ≤ s.l ∧ (s.comp! ca).2.2 ≤ s.l) :
    ((angmomBlock s t).get 0).get4 ma ca mb cb
      = Wint s t ma ca mb cb (0,0,0) (0,0,1) (0,1,0) - Wint s t ma ca mb cb (0,0,0) (0,1,0) (0,0,1) := by
  unfold Wint
  rw [integral_shellW s t _ _ _ _ ma ca mb cb hs ht, integral_shellW s t _ _ _ _ ma ca mb cb hs ht,
    ← Finset.sum_sub_distrib]
  simp only [angmomBlock, tab_get, blockTab, tab4_get, contract, Shell.normTab, tab2_get, pairTabs,
    tab3_get, Comp.ax, Nat.reduceMod, zero_add]
  rw [sumN_eq_sum]
  refine Finset.sum_congr rfl fun ka hka => ?_
  rw [sumN_eq_sum, ← Finset.sum_sub_distrib]
  refine Finset.sum_congr rfl fun kb hkb => ?_
  have ha := hs ka (Finset.mem_range.mp hka)
  have hb := ht kb (Finset.mem_range.mp hkb)
  rw [momAx_entry_kw1 s t 2 ka kb 0 0 _ _ ha hb, momAx_entry_kw1 s t 2 ka kb 1 1 _ _ ha hb,
    momAx_entry_kw1 s t 2 ka kb 2 1 _ _ ha hb,
    diffAx_entry_kw1 s t 1 ka kb 2 1 _ _ 0 ha hb le_rfl hc.2.2,
    diffAx_entry_kw1 s t 1 ka kb 1 1 _ _ 0 ha hb le_rfl hc.2.1,
    integral_primW, integral_primW]
  unfold cN
  ring


/-- `y` component: `∫ φ_a (z ∂_x − x ∂_z) φ_b` -/
theorem angmomBlock_eq_Wint_y (s t : Shell ℝ) (ma ca mb cb : ℕ)
    (hs : ∀ k < s.nprim, 0 < s.exp! k) (ht : ∀ k < t.nprim, 0 < t.exp! k)
    (hc : (s.comp! ca).1 ≤ s.l ∧ (s.comp! ca).2.1 ≤ s.l ∧ (s.comp! ca).2.2 ≤ s.l) :
    ((angmomBlock s t).get 1).get4 ma ca mb cb
      = Wint s t ma ca mb cb (0,0,0) (1,0,0) (0,0,1) - Wint s t ma ca mb cb (0,0,0) (0,0,1) (1,0,0) := by
  unfold Wint
  rw [integral_shellW s t _ _ _ _ ma ca mb cb hs ht, integral_shellW s t _ _ _ _ ma ca mb cb hs ht,
    ← Finset.sum_sub_distrib]
  simp only [angmomBlock, tab_get, blockTab, tab4_get, contract, Shell.normTab, tab2_get, pairTabs,
    tab3_get, Comp.ax, Nat.reduceAdd, Nat.reduceMod]
  rw [sumN_eq_sum]
  refine Finset.sum_congr rfl fun ka hka => ?_
  rw [sumN_eq_sum, ← Finset.sum_sub_distrib]
  refine Finset.sum_congr rfl fun kb hkb => ?_
  have ha := hs ka (Finset.mem_range.mp hka)
  have hb := ht kb (Finset.mem_range.mp hkb)
  rw [momAx_entry_kw1 s t 2 ka kb 1 0 _ _ ha hb, momAx_entry_kw1 s t 2 ka kb 2 1 _ _ ha hb,
    momAx_entry_kw1 s t 2 ka kb 0 1 _ _ ha hb,
    diffAx_entry_kw1 s t 1 ka kb 0 1 _ _ 0 ha hb le_rfl hc.1,
    diffAx_entry_kw1 s t 1 ka kb 2 1 _ _ 0 ha hb le_rfl hc.2.2,
    integral_primW, integral_primW]
  unfold cN
  ring

/-- `z` component: `∫ φ_a (x ∂_y − y ∂_x) φ_b` -/
theorem angmomBlock_eq_Wint_z (s t : Shell ℝ) (ma ca mb cb : ℕ)
    (hs : ∀ k < s.nprim, 0 < s.exp! k) (ht : ∀ k < t.nprim, 0 < t.exp! k)
    (hc : (s.comp! ca).1 ≤ s.l ∧ (s.comp! ca).2.1 ≤ s.l ∧ (s.comp! ca).2.2 ≤ s.l) :
    ((angmomBlock s t).get 2).get4 ma ca mb cb
      = Wint s t ma ca mb cb (0,0,0) (0,1,0) (1,0,0) - Wint s t ma ca mb cb (0,0,0) (1,0,0) (0,1,0) := by
  unfold Wint
  rw [integral_shellW s t _ _ _ _ ma ca mb cb hs ht, integral_shellW s t _ _ _ _ ma ca mb cb hs ht,
    ← Finset.sum_sub_distrib]
  simp only [angmomBlock, tab_get, blockTab, tab4_get, contract, Shell.normTab, tab2_get, pairTabs,
    tab3_get, Comp.ax, Nat.reduceAdd, Nat.reduceMod]
  rw [sumN_eq_sum]
  refine Finset.sum_congr rfl fun ka hka => ?_
  rw [sumN_eq_sum, ← Finset.sum_sub_distrib]
  refine Finset.sum_congr rfl fun kb hkb => ?_
  have ha := hs ka (Finset.mem_range.mp hka)
  have hb := ht kb (Finset.mem_range.mp hkb)
  rw [momAx_entry_kw1 s t 2 ka kb 2 0 _ _ ha hb, momAx_entry_kw1 s t 2 ka kb 0 1 _ _ ha hb,
    momAx_entry_kw1 s t 2 ka kb 1 1 _ _ ha hb,
    diffAx_entry_kw1 s t 1 ka kb 1 1 _ _ 0 ha hb le_rfl hc.2.1,
    diffAx_entry_kw1 s t 1 ka kb 0 1 _ _ 0 ha hb le_rfl hc.1,
    integral_primW, integral_primW]
  unfold cN
  ring

/-! ## 5. Uniform statements: coordinates, unit orders, `(r × ∇)_k` -/

/-- coordinate number `i` of a point of `ℝ × ℝ × ℝ` -/
def coord (r : ℝ × ℝ × ℝ) : ℕ → ℝ
  | 0 => r.1
  | 1 => r.2.1
  | _ => r.2.2

/-- the first-derivative order triple of axis `i` -/
def unitOrd : ℕ → Comp
  | 0 => (1,0,0)
  | 1 => (0,1,0)
  | _ => (0,0,1)

/-- component `k` of `(r × ∇) φ_t` (about the coordinate origin) for the contracted function
`(m, c)` of the shell `t`: `r_v ∂_w φ − r_w ∂_v φ`, `(k, v, w)` cyclic -/
noncomputable def rotDerivFn (t : Shell ℝ) (m c k : ℕ) (r : ℝ × ℝ × ℝ) : ℝ :=
  coord r ((k+1)%3) * shellDerivFn t m c (unitOrd ((k+2)%3)) r
    - coord r ((k+2)%3) * shellDerivFn t m c (unitOrd ((k+1)%3)) r

/-- the weighted integrals `∫ φ_a r_v ∂_w φ_b` of `rotDerivFn` are integrable -/
lemma integrable_shell_coord_deriv (s t : Shell ℝ) (ma ca mb cb v w : ℕ)
    (hs : ∀ k < s.nprim, 0 < s.exp! k) (ht : ∀ k < t.nprim, 0 < t.exp! k) :
    Integrable fun r : ℝ × ℝ × ℝ =>
      shellFn s ma ca r * (coord r v * shellDerivFn t mb cb (unitOrd w) r) := by
  have h := integrable_shellW s t (fun _ => 0) (0,0,0) (unitOrd w) (unitOrd v) ma ca mb cb hs ht
  refine h.congr (Filter.Eventually.of_forall fun r => ?_)
  rcases v with _ | _ | v <;>
    simp only [monoFn, unitOrd, coord, shellDerivFn_zero, pow_zero, pow_one, sub_zero, mul_one,
      one_mul] <;> ring

lemma integral_shell_coord_deriv (s t : Shell ℝ) (ma ca mb cb v w : ℕ) :
    ∫ r : ℝ × ℝ × ℝ, shellFn s ma ca r * (coord r v * shellDerivFn t mb cb (unitOrd w) r)
      = Wint s t ma ca mb cb (0,0,0) (unitOrd w) (unitOrd v) := by
  unfold Wint
  refine integral_congr_ae (Filter.Eventually.of_forall fun r => ?_)
  rcases v with _ | _ | v <;>
    simp only [monoFn, unitOrd, coord, shellDerivFn_zero, pow_zero, pow_one, sub_zero, mul_one,
      one_mul] <;> ring

lemma integrable_shell_rotDeriv (s t : Shell ℝ) (ma ca mb cb k : ℕ)
    (hs : ∀ k < s.nprim, 0 < s.exp! k) (ht : ∀ k < t.nprim, 0 < t.exp! k) :
    Integrable fun r : ℝ × ℝ × ℝ => shellFn s ma ca r * rotDerivFn t mb cb k r := by
  have h := (integrable_shell_coord_deriv s t ma ca mb cb ((k+1)%3) ((k+2)%3) hs ht).sub
    (integrable_shell_coord_deriv s t ma ca mb cb ((k+2)%3) ((k+1)%3) hs ht)
  refine h.congr (Filter.Eventually.of_forall fun r => ?_)
  simp only [rotDerivFn, Pi.sub_apply]
  ring

lemma integral_shell_rotDeriv (s t : Shell ℝ) (ma ca mb cb k : ℕ)
    (hs : ∀ k < s.nprim, 0 < s.exp! k) (ht : ∀ k < t.nprim, 0 < t.exp! k) :
    ∫ r : ℝ × ℝ × ℝ, shellFn s ma ca r * rotDerivFn t mb cb k r
      = Wint s t ma ca mb cb (0,0,0) (unitOrd ((k+2)%3)) (unitOrd ((k+1)%3))
        - Wint s t ma ca mb cb (0,0,0) (unitOrd ((k+1)%3)) (unitOrd ((k+2)%3)) := by
  rw [← integral_shell_coord_deriv, ← integral_shell_coord_deriv,
    ← integral_sub (integrable_shell_coord_deriv s t ma ca mb cb _ _ hs ht)
      (integrable_shell_coord_deriv s t ma ca mb cb _ _ hs ht)]
  refine integral_congr_ae (Filter.Eventually.of_forall fun r => ?_)
  simp only [rotDerivFn]
  ring

/-- **C08, angular momentum.**  For `k < 3` the block number `k` of the model of
`AngularMomentumIntegral.construct_array_contraction` (divided by `-i`) is the integral over ℝ³ of
the left contracted function times component `k` of `(r × ∇)` applied to the right one, about the
coordinate origin. -/
theorem angmomBlock_eq_integral (s t : Shell ℝ) (k ma ca mb cb : ℕ) (hk : k < 3)
    (hs : ∀ k < s.nprim, 0 < s.exp! k) (ht : ∀ k < t.nprim, 0 < t.exp! k)
    (hc : (s.comp! ca).1 ≤ s.l ∧ (s.comp! ca).2.1 ≤ s.l ∧ (s.comp! ca).2.2 ≤ s.l) :
    ((angmomBlock s t).get k).get4 ma ca mb cb
      = ∫ r : ℝ × ℝ × ℝ, shellFn s ma ca r * rotDerivFn t mb cb k r := by
  rw [integral_shell_rotDeriv s t ma ca mb cb k hs ht]
  interval_cases k
  · exact angmomBlock_eq_Wint_x s t ma ca mb cb hs ht hc
  · exact angmomBlock_eq_Wint_y s t ma ca mb cb hs ht hc
  · exact angmomBlock_eq_Wint_z s t ma ca mb cb hs ht hc

/-- `L_x`: `∫ φ_a (y ∂_z − z ∂_y) φ_b` -/
theorem angmomBlock_eq_integral_x (s t : Shell ℝ) (ma ca mb cb : ℕ)
    (hs : ∀ k < s.nprim, 0 < s.exp! k) (ht : ∀ k < t.nprim, 0 < t.exp! k)
    (hc : (s.comp! ca).1 ≤ s.l ∧ (s.comp! ca).2.1 ≤ s.l ∧ (s.comp! ca).2.2 ≤ s.l) :
    ((angmomBlock s t).get 0).get4 ma ca mb cb
      = ∫ r : ℝ × ℝ × ℝ, shellFn s ma ca r
          * (r.2.1 * shellDerivFn t mb cb (0,0,1) r - r.2.2 * shellDerivFn t mb cb (0,1,0) r) :=
  angmomBlock_eq_integral s t 0 ma ca mb cb (by norm_num) hs ht hc

/-- `L_y`: `∫ φ_a (z ∂_x − x ∂_z) φ_b` -/
theorem angmomBlock_eq_integral_y (s t : Shell ℝ) (ma ca mb cb : ℕ)
    (hs : ∀ k < s.nprim, 0 < s.exp! k) (ht : ∀ k < t.nprim, 0 < t.exp! k)
    (hc : (s.comp! ca).1 ≤ s.l ∧ (s.comp! ca).2.1 ≤ s.l ∧ (s.comp! ca).2.2 ≤ s.l) :
    ((angmomBlock s t).get 1).get4 ma ca mb cb
      = ∫ r : ℝ × ℝ × ℝ, shellFn s ma ca r
          * (r.2.2 * shellDerivFn t mb cb (1,0,0) r - r.1 * shellDerivFn t mb cb (0,0,1) r) :=
  angmomBlock_eq_integral s t 1 ma ca mb cb (by norm_num) hs ht hc

/-- `L_z`: `∫ φ_a (x ∂_y − y ∂_x) φ_b` -/
theorem angmomBlock_eq_integral_z (s t : Shell ℝ) (ma ca mb cb : ℕ)
    (hs : ∀ k < s.nprim, 0 < s.exp! k) (ht : ∀ k < t.nprim, 0 < t.exp! k)
    (hc : (s.comp! ca).1 ≤ s.l ∧ (s.comp! ca).2.1 ≤ s.l ∧ (s.comp! ca).2.2 ≤ s.l) :
    ((angmomBlock s t).get 2).get4 ma ca mb cb
      = ∫ r : ℝ × ℝ × ℝ, shellFn s ma ca r
          * (r.1 * shellDerivFn t mb cb (0,1,0) r - r.2.1 * shellDerivFn t mb cb (1,0,0) r) :=
  angmomBlock_eq_integral s t 2 ma ca mb cb (by norm_num) hs ht hc

/-- **C08, momentum.**  Block `k < 3` of `momentumBlock` is `∫ φ_a ∂_k φ_b`
(`shellDerivFn … (unitOrd k)` is the `k`-th partial derivative of `shellFn`, see
`hasDerivAt_shellFn_x/_y/_z`). -/
theorem momentumBlock_eq_integral (s t : Shell ℝ) (k ma ca mb cb : ℕ) (hk : k < 3)
    (hs : ∀ k < s.nprim, 0 < s.exp! k) (ht : ∀ k < t.nprim, 0 < t.exp! k)
    (hc : (s.comp! ca).1 ≤ s.l ∧ (s.comp! ca).2.1 ≤ s.l ∧ (s.comp! ca).2.2 ≤ s.l) :
    ((momentumBlock s t).get k).get4 ma ca mb cb
      = ∫ r : ℝ × ℝ × ℝ, shellFn s ma ca r * shellDerivFn t mb cb (unitOrd k) r := by
  unfold momentumBlock
  rw [diffBlock_eq_integral s t _ k ma ca mb cb hs ht hc]
  interval_cases k <;> rfl


/-! ## 6. Anti-symmetry (the operators `-i∇` and `-i r×∇` are Hermitian) -/

/-- first-order integration by parts along axis `w`, with a weight that does not depend on the
`w`-th coordinate -/
lemma Wint_ibp_unit (s t : Shell ℝ) (ma ca mb cb w : ℕ) (hw : w < 3) (p : Comp)
    (hp : Comp.ax p w = 0)
    (hs : ∀ k < s.nprim, 0 < s.exp! k) (ht : ∀ k < t.nprim, 0 < t.exp! k) :
    Wint s t ma ca mb cb (0,0,0) (unitOrd w) p = - Wint s t ma ca mb cb (unitOrd w) (0,0,0) p := by
  obtain ⟨px, py, pz⟩ := p
  interval_cases w
  · simp only [Comp.ax] at hp; subst hp
    exact Wint_ibp_x s t ma ca mb cb hs ht 0 0 0 0 0 0 py pz
  · simp only [Comp.ax] at hp; subst hp
    exact Wint_ibp_y s t ma ca mb cb hs ht 0 0 0 0 0 0 px pz
  · simp only [Comp.ax] at hp; subst hp
    exact Wint_ibp_z s t ma ca mb cb hs ht 0 0 0 0 0 0 px py

/-- **C08: the momentum blocks are anti-symmetric** (so `-i` times them, the array of the code, is
Hermitian): `∫ φ_a ∂_k φ_b = −∫ φ_b ∂_k φ_a`. -/
theorem momentumBlock_antisymm (s t : Shell ℝ) (k ma ca mb cb : ℕ) (hk : k < 3)
    (hs : ∀ k < s.nprim, 0 < s.exp! k) (ht : ∀ k < t.nprim, 0 < t.exp! k)
    (hca : (s.comp! ca).1 ≤ s.l ∧ (s.comp! ca).2.1 ≤ s.l ∧ (s.comp! ca).2.2 ≤ s.l)
    (hcb : (t.comp! cb).1 ≤ t.l ∧ (t.comp! cb).2.1 ≤ t.l ∧ (t.comp! cb).2.2 ≤ t.l) :
    ((momentumBlock s t).get k).get4 ma ca mb cb
      = - ((momentumBlock t s).get k).get4 mb cb ma ca := by
  rw [momentumBlock_eq_integral s t k ma ca mb cb hk hs ht hca,
    momentumBlock_eq_integral t s k mb cb ma ca hk ht hs hcb,
    integral_shell_deriv_eq_Wint, integral_shell_deriv_eq_Wint,
    Wint_ibp_unit s t ma ca mb cb k hk (0,0,0) (by interval_cases k <;> rfl) hs ht,
    Wint_comm]

/-- **C08: the angular-momentum blocks are anti-symmetric**:
`∫ φ_a (r×∇)_k φ_b = −∫ φ_b (r×∇)_k φ_a` (the weight `r_v` does not depend on the coordinate `w`
along which one integrates by parts). -/
theorem angmomBlock_antisymm (s t : Shell ℝ) (k ma ca mb cb : ℕ) (hk : k < 3)
    (hs : ∀ k < s.nprim, 0 < s.exp! k) (ht : ∀ k < t.nprim, 0 < t.exp! k)
    (hca : (s.comp! ca).1 ≤ s.l ∧ (s.comp! ca).2.1 ≤ s.l ∧ (s.comp! ca).2.2 ≤ s.l)
    (hcb : (t.comp! cb).1 ≤ t.l ∧ (t.comp! cb).2.1 ≤ t.l ∧ (t.comp! cb).2.2 ≤ t.l) :
    ((angmomBlock s t).get k).get4 ma ca mb cb
      = - ((angmomBlock t s).get k).get4 mb cb ma ca := by
  rw [angmomBlock_eq_integral s t k ma ca mb cb hk hs ht hca,
    angmomBlock_eq_integral t s k mb cb ma ca hk ht hs hcb,
    integral_shell_rotDeriv s t ma ca mb cb k hs ht, integral_shell_rotDeriv t s mb cb ma ca k ht hs,
    Wint_ibp_unit s t ma ca mb cb ((k+2)%3) (Nat.mod_lt _ (by norm_num)) (unitOrd ((k+1)%3))
      (by interval_cases k <;> rfl) hs ht,
    Wint_ibp_unit s t ma ca mb cb ((k+1)%3) (Nat.mod_lt _ (by norm_num)) (unitOrd ((k+2)%3))
      (by interval_cases k <;> rfl) hs ht,
    Wint_comm s t, Wint_comm s t]
  ring


/-! ## 7. Origin law (C12): a common translation by `d` adds `d × p` -/

/-- the translation vector as a point of `ℝ × ℝ × ℝ` -/
def vec3 (d : ℕ → ℝ) : ℝ × ℝ × ℝ := (d 0, d 1, d 2)

/-- Lebesgue measure on `ℝ × ℝ × ℝ` is translation invariant -/
lemma integral_comp_sub_vec (F : ℝ × ℝ × ℝ → ℝ) (D : ℝ × ℝ × ℝ) :
    ∫ r, F (r - D) = ∫ r, F r := by
  have inst : (volume : Measure (ℝ × ℝ × ℝ)).IsAddLeftInvariant := by
    rw [Measure.volume_eq_prod ℝ (ℝ × ℝ), Measure.volume_eq_prod ℝ ℝ]
    exact Measure.prod.instIsAddLeftInvariant
  have h := integral_add_left_eq_self (μ := volume) F (-D)
  simpa [neg_add_eq_sub] using h

lemma coord_sub_vec3 (r : ℝ × ℝ × ℝ) (d : ℕ → ℝ) (j : ℕ) (hj : j < 3) :
    coord (r - vec3 d) j = coord r j - d j := by
  interval_cases j <;> simp [coord, vec3]

lemma prim1_translate (α A d : ℝ) (n : ℕ) :
    prim1 α (A + d) n = fun x => prim1 α A n (x - d) := by
  funext x
  simp only [prim1, sub_add_eq_sub_sub_swap]

lemma primDerivFn_translate (α : ℝ) (A d : ℕ → ℝ) (c o : Comp) (r : ℝ × ℝ × ℝ) :
    primDerivFn α (fun i => A i + d i) c o r = primDerivFn α A c o (r - vec3 d) := by
  simp only [primDerivFn, prim1_translate, iteratedDeriv_comp_sub_const, vec3, Prod.fst_sub,
    Prod.snd_sub]

/-- the functions of the translated shell are the translated functions -/
theorem shellDerivFn_translate (s : Shell ℝ) (d : ℕ → ℝ) (m c : ℕ) (o : Comp) (r : ℝ × ℝ × ℝ) :
    shellDerivFn (s.translate d) m c o r = shellDerivFn s m c o (r - vec3 d) := by
  unfold shellDerivFn
  refine Finset.sum_congr rfl fun k _ => ?_
  rw [← primDerivFn_translate]
  rfl

theorem shellFn_translate (s : Shell ℝ) (d : ℕ → ℝ) (m c : ℕ) (r : ℝ × ℝ × ℝ) :
    shellFn (s.translate d) m c r = shellFn s m c (r - vec3 d) := by
  rw [← shellDerivFn_zero, ← shellDerivFn_zero, shellDerivFn_translate]

/-- **C12, origin law of the angular momentum.**  Moving both shells by the vector `d` (equivalently:
moving the origin by `-d`) changes block `k` of the angular momentum by `(d × p)_k`:
`L_k(s+d, t+d) = L_k(s, t) + d_v P_w(s, t) − d_w P_v(s, t)`, `(k, v, w)` cyclic, entrywise, where `P` is
`momentumBlock` (`∫ φ_a ∂ φ_b`). -/
theorem angmomBlock_translate (s t : Shell ℝ) (d : ℕ → ℝ) (k ma ca mb cb : ℕ) (hk : k < 3)
    (hs : ∀ k < s.nprim, 0 < s.exp! k) (ht : ∀ k < t.nprim, 0 < t.exp! k)
    (hc : (s.comp! ca).1 ≤ s.l ∧ (s.comp! ca).2.1 ≤ s.l ∧ (s.comp! ca).2.2 ≤ s.l) :
    ((angmomBlock (s.translate d) (t.translate d)).get k).get4 ma ca mb cb
      = ((angmomBlock s t).get k).get4 ma ca mb cb
        + (d ((k+1)%3) * ((momentumBlock s t).get ((k+2)%3)).get4 ma ca mb cb
            - d ((k+2)%3) * ((momentumBlock s t).get ((k+1)%3)).get4 ma ca mb cb) := by
  have hv : (k+1)%3 < 3 := Nat.mod_lt _ (by norm_num)
  have hw : (k+2)%3 < 3 := Nat.mod_lt _ (by norm_num)
  rw [angmomBlock_eq_integral (s.translate d) (t.translate d) k ma ca mb cb hk hs ht hc,
    angmomBlock_eq_integral s t k ma ca mb cb hk hs ht hc,
    momentumBlock_eq_integral s t _ ma ca mb cb hw hs ht hc,
    momentumBlock_eq_integral s t _ ma ca mb cb hv hs ht hc]
  -- the integrand of the translated pair is a translate of `F`
  set F : ℝ × ℝ × ℝ → ℝ := fun r =>
    shellFn s ma ca r * rotDerivFn t mb cb k r
      + (d ((k+1)%3) * (shellFn s ma ca r * shellDerivFn t mb cb (unitOrd ((k+2)%3)) r)
          - d ((k+2)%3) * (shellFn s ma ca r * shellDerivFn t mb cb (unitOrd ((k+1)%3)) r)) with hF
  have e : ∀ r : ℝ × ℝ × ℝ,
      shellFn (s.translate d) ma ca r * rotDerivFn (t.translate d) mb cb k r = F (r - vec3 d) := by
    intro r
    have c1 := coord_sub_vec3 r d _ hv
    have c2 := coord_sub_vec3 r d _ hw
    simp only [hF, rotDerivFn, shellFn_translate, shellDerivFn_translate, c1, c2]
    ring
  simp_rw [e]
  rw [integral_comp_sub_vec F (vec3 d)]
  simp only [hF]
  have i1 : Integrable fun r : ℝ × ℝ × ℝ =>
      d ((k+1)%3) * (shellFn s ma ca r * shellDerivFn t mb cb (unitOrd ((k+2)%3)) r) :=
    (integrable_shell_mul_deriv s t _ ma ca mb cb hs ht).const_mul _
  have i2 : Integrable fun r : ℝ × ℝ × ℝ =>
      d ((k+2)%3) * (shellFn s ma ca r * shellDerivFn t mb cb (unitOrd ((k+1)%3)) r) :=
    (integrable_shell_mul_deriv s t _ ma ca mb cb hs ht).const_mul _
  have i12 : Integrable fun r : ℝ × ℝ × ℝ =>
      d ((k+1)%3) * (shellFn s ma ca r * shellDerivFn t mb cb (unitOrd ((k+2)%3)) r)
        - d ((k+2)%3) * (shellFn s ma ca r * shellDerivFn t mb cb (unitOrd ((k+1)%3)) r) :=
    i1.sub i2
  rw [integral_add (integrable_shell_rotDeriv s t ma ca mb cb k hs ht) i12, integral_sub i1 i2,
    integral_const_mul, integral_const_mul]

/-- momentum integrals do not see a common translation -/
theorem momentumBlock_translate (s t : Shell ℝ) (d : ℕ → ℝ) (k ma ca mb cb : ℕ)
    (hs : ∀ k < s.nprim, 0 < s.exp! k) (ht : ∀ k < t.nprim, 0 < t.exp! k) :
    ((momentumBlock (s.translate d) (t.translate d)).get k).get4 ma ca mb cb
      = ((momentumBlock s t).get k).get4 ma ca mb cb :=
  diffBlock_translate Real.exp Real.sqrt Real.pi s t d _ k ma ca mb cb
    fun ka hka kb hkb => (add_pos (hs ka hka) (ht kb hkb)).ne'

/-! ## 8. The complex arrays of the code are Hermitian -/

/-- entry of `MomentumIntegral.construct_array_contraction`: `-i ∫ φ_a ∂_k φ_b` -/
noncomputable def momentumEntry (s t : Shell ℝ) (k ma ca mb cb : ℕ) : ℂ :=
  -Complex.I * (((momentumBlock s t).get k).get4 ma ca mb cb : ℝ)

/-- entry of `AngularMomentumIntegral.construct_array_contraction`: `-i ∫ φ_a (r×∇)_k φ_b` -/
noncomputable def angmomEntry (s t : Shell ℝ) (k ma ca mb cb : ℕ) : ℂ :=
  -Complex.I * (((angmomBlock s t).get k).get4 ma ca mb cb : ℝ)

theorem momentumEntry_hermitian (s t : Shell ℝ) (k ma ca mb cb : ℕ) (hk : k < 3)
    (hs : ∀ k < s.nprim, 0 < s.exp! k) (ht : ∀ k < t.nprim, 0 < t.exp! k)
    (hca : (s.comp! ca).1 ≤ s.l ∧ (s.comp! ca).2.1 ≤ s.l ∧ (s.comp! ca).2.2 ≤ s.l)
    (hcb : (t.comp! cb).1 ≤ t.l ∧ (t.comp! cb).2.1 ≤ t.l ∧ (t.comp! cb).2.2 ≤ t.l) :
    momentumEntry s t k ma ca mb cb = (starRingEnd ℂ) (momentumEntry t s k mb cb ma ca) := by
  unfold momentumEntry
  rw [momentumBlock_antisymm s t k ma ca mb cb hk hs ht hca hcb]
  simp

theorem angmomEntry_hermitian (s t : Shell ℝ) (k ma ca mb cb : ℕ) (hk : k < 3)
    (hs : ∀ k < s.nprim, 0 < s.exp! k) (ht : ∀ k < t.nprim, 0 < t.exp! k)
    (hca : (s.comp! ca).1 ≤ s.l ∧ (s.comp! ca).2.1 ≤ s.l ∧ (s.comp! ca).2.2 ≤ s.l)
    (hcb : (t.comp! cb).1 ≤ t.l ∧ (t.comp! cb).2.1 ≤ t.l ∧ (t.comp! cb).2.2 ≤ t.l) :
    angmomEntry s t k ma ca mb cb = (starRingEnd ℂ) (angmomEntry t s k mb cb ma ca) := by
  unfold angmomEntry
  rw [angmomBlock_antisymm s t k ma ca mb cb hk hs ht hca hcb]
  simp

/-! ## 9. Momentum under every rigid motion (C12) -/
section Rigid
open Finset InnerProductSpace

lemma clm_expand (L : E3 →L[ℝ] ℝ) (v : E3) : L v = ∑ j : Fin 3, v j * L (eAx j) := by
  have hv : v = ∑ j : Fin 3, v j • eAx j := by
    have h := (EuclideanSpace.basisFun (Fin 3) ℝ).sum_repr v
    simp only [EuclideanSpace.basisFun_repr, EuclideanSpace.basisFun_apply] at h
    exact h.symm
  conv_lhs => rw [hv]
  simp only [map_sum, map_smul, smul_eq_mul]

lemma symm_eAx_apply (R : E3 ≃ₗᵢ[ℝ] E3) (k j : Fin 3) :
    (R.symm (eAx k)) j = matOf R.toLinearEquiv.toLinearMap k j := by
  have h1 : (R.symm (eAx k)) j = ⟪eAx j, R.symm (eAx k)⟫_ℝ := by
    simp [eAx, EuclideanSpace.inner_single_left]
  have h2 : ⟪eAx j, R.symm (eAx k)⟫_ℝ = ⟪R (eAx j), eAx k⟫_ℝ := by
    rw [← R.inner_map_map, R.apply_symm_apply]
  rw [h1, h2]
  simp [eAx, matOf, EuclideanSpace.inner_single_right]

/-- the partial derivative along axis `k` of the function on `E3` -/
lemma fderiv_shellFnE_ax (s : Shell ℝ) (m c : ℕ) (k : Fin 3) (r : E3) :
    fderiv ℝ (shellFnE s m c) r (eAx k) = shellDerivFn s m c (unitOrd k) (e3Equiv r) := by
  fin_cases k
  · exact fderiv_shellFnE_ax0 s m c r
  · exact fderiv_shellFnE_ax1 s m c r
  · exact fderiv_shellFnE_ax2 s m c r

/-- gradient at the image point, along the standard axis `k`, in terms of the gradients of the
original functions: `∂_k ψ (g r) = Σ_j R_kj Σ_l D_l ∂_j φ_l (r)` -/
lemma fderiv_moved_ax {κ : Type*} (g : E3 ≃ᵃⁱ[ℝ] E3) (S : Finset κ) (ψ : E3 → ℝ)
    (φ : κ → E3 → ℝ) (D : κ → ℝ) (h : ∀ r, ψ (g r) = ∑ j ∈ S, D j * φ j r)
    (hψ : Differentiable ℝ ψ) (hφ : ∀ j, Differentiable ℝ (φ j)) (r : E3) (k : Fin 3) :
    fderiv ℝ ψ (g r) (eAx k)
      = ∑ j : Fin 3, matOf (linPart g) k j * ∑ l ∈ S, D l * fderiv ℝ (φ l) r (eAx j) := by
  have h1 := fderiv_comp_moved g S ψ φ D h hψ hφ r
  have h2 := congrArg (fun L : E3 →L[ℝ] ℝ => L (g.linearIsometryEquiv.symm (eAx k))) h1
  simp only [ContinuousLinearMap.comp_apply, _root_.sum_apply,
    _root_.smul_apply, smul_eq_mul] at h2
  have e : ((g.linearIsometryEquiv : E3 ≃ₗᵢ[ℝ] E3) : E3 →L[ℝ] E3)
      (g.linearIsometryEquiv.symm (eAx k)) = eAx k := g.linearIsometryEquiv.apply_symm_apply _
  rw [e] at h2
  rw [h2]
  simp_rw [clm_expand (fderiv ℝ (φ _) r) (g.linearIsometryEquiv.symm (eAx k)), symm_eAx_apply,
    Finset.mul_sum]
  rw [Finset.sum_comm]
  refine Finset.sum_congr rfl fun j _ => Finset.sum_congr rfl fun l _ => ?_
  unfold linPart
  ring


lemma integrable_shellFnE_mul_fderiv (s t : Shell ℝ) (ma ca mb cb : ℕ) (k : Fin 3)
    (hs : ∀ k < s.nprim, 0 < s.exp! k) (ht : ∀ k < t.nprim, 0 < t.exp! k) :
    Integrable fun r : E3 => shellFnE s ma ca r * fderiv ℝ (shellFnE t mb cb) r (eAx k) := by
  simp_rw [fderiv_shellFnE_ax, ← shellFn_e3Equiv]
  exact (e3Equiv_measurePreserving.integrable_comp_emb e3Equiv.measurableEmbedding).mpr
    (integrable_shell_mul_deriv s t (unitOrd k) ma ca mb cb hs ht)

/-- **the momentum block as an integral over `E3`**: `∫ φ_a ∂_k φ_b` with the Fréchet differential of
`shellFnE` applied to the `k`-th standard unit vector -/
theorem momentumBlock_eq_integral_E3 (s t : Shell ℝ) (k : Fin 3) (ma ca mb cb : ℕ)
    (hs : ∀ k < s.nprim, 0 < s.exp! k) (ht : ∀ k < t.nprim, 0 < t.exp! k)
    (hc : (s.comp! ca).1 ≤ s.l ∧ (s.comp! ca).2.1 ≤ s.l ∧ (s.comp! ca).2.2 ≤ s.l) :
    ((momentumBlock s t).get k).get4 ma ca mb cb
      = ∫ r : E3, shellFnE s ma ca r * fderiv ℝ (shellFnE t mb cb) r (eAx k) := by
  rw [momentumBlock_eq_integral s t k ma ca mb cb k.isLt hs ht hc,
    ← e3Equiv_measurePreserving.integral_comp'
      (fun r => shellFn s ma ca r * shellDerivFn t mb cb (unitOrd k) r)]
  simp only [shellFn_e3Equiv, fderiv_shellFnE_ax]

/-- **C12, momentum under a rigid motion.**  Moving both shells by the same affine isometry `g` (with
linear part `R`): the vector of the three momentum blocks of the moved pair is `R` applied to the
vector of the original blocks, transformed by the representation matrices of the two shells on the two
component indices:
`P'_k[ma ca mb cb] = Σ_j R_kj Σ_{ca', cb'} D^s_{ca ca'} D^t_{cb cb'} P_j[ma ca' mb cb']`. -/
theorem momentumBlock_moved (g : E3 ≃ᵃⁱ[ℝ] E3) (s t : Shell ℝ) (k : Fin 3) (ma ca mb cb : ℕ)
    (hs : ∀ k, k < s.nprim → 0 < s.exp! k) (ht : ∀ k, k < t.nprim → 0 < t.exp! k)
    (hfs : FullCart s.l s.cart) (hft : FullCart t.l t.cart)
    (hca : ca < s.ncart) (hcb : cb < t.ncart) :
    ((momentumBlock (s.moved g) (t.moved g)).get k).get4 ma ca mb cb
      = ∑ j : Fin 3, matOf (linPart g) k j *
          ∑ ca' ∈ range s.ncart, ∑ cb' ∈ range t.ncart,
            repMat (linPart g) s.cart ca ca' * repMat (linPart g) t.cart cb cb'
              * ((momentumBlock s t).get j).get4 ma ca' mb cb' := by
  rw [momentumBlock_eq_integral_E3 (s.moved g) (t.moved g) k ma ca mb cb hs ht (hfs.each_le hca)]
  have h := lift_core (affineIso_measurePreserving g) (affineIso_measurableEmbedding g)
    ((univ : Finset (Fin 3)) ×ˢ (range s.ncart ×ˢ range t.ncart))
    (fun r => shellFnE (s.moved g) ma ca r * fderiv ℝ (shellFnE (t.moved g) mb cb) r (eAx k))
    (fun x r => shellFnE s ma x.2.1 r * fderiv ℝ (shellFnE t mb x.2.2) r (eAx x.1))
    (fun x => matOf (linPart g) k x.1
      * (repMat (linPart g) s.cart ca x.2.1 * repMat (linPart g) t.cart cb x.2.2))
    (fun r => by
      rw [shellFnE_moved g s hfs ma ca hca,
        fderiv_moved_ax g (range t.ncart) (shellFnE (t.moved g) mb cb) (fun l => shellFnE t mb l)
          (repMat (linPart g) t.cart cb) (shellFnE_moved g t hft mb cb hcb)
          (differentiable_shellFnE _ _ _) (fun l => differentiable_shellFnE _ _ _) r k,
        Finset.sum_product, Finset.mul_sum]
      refine Finset.sum_congr rfl fun j _ => ?_
      rw [Finset.sum_product, mul_left_comm, Finset.sum_mul_sum, Finset.mul_sum]
      refine Finset.sum_congr rfl fun a _ => ?_
      rw [Finset.mul_sum]
      refine Finset.sum_congr rfl fun l _ => ?_
      ring)
    (fun x _ => integrable_shellFnE_mul_fderiv s t ma x.2.1 mb x.2.2 x.1 hs ht)
  rw [h, Finset.sum_product]
  refine Finset.sum_congr rfl fun j _ => ?_
  rw [Finset.sum_product, Finset.mul_sum]
  refine Finset.sum_congr rfl fun a ha => ?_
  rw [Finset.mul_sum]
  refine Finset.sum_congr rfl fun l _ => ?_
  rw [momentumBlock_eq_integral_E3 s t j ma a mb l hs ht (hfs.each_le (Finset.mem_range.mp ha))]
  ring


end Rigid

end GB

