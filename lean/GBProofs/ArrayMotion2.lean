import GBProofs.ArrayMotion
import GBProofs.ArrayContraction
import GBProofs.MomentMotion
import GBProofs.AngMomMotion
import GBProofs.Layout14
import GBProofs.Reorder

/-!
# Rigid-motion covariance of the assembled arrays, part 2 (C12, array level)

Continuation of `GBProofs/ArrayMotion.lean`.  `g : E3 ≃ᵃⁱ[ℝ] E3` is an arbitrary rigid motion, `b` a
movable basis (`Basis.Movable`), `U = basisRep b (linPart g)` the block-diagonal representation matrix
of the basis.

* §1 `repMat_of_id`, `sphRep_of_id`, `shellRep_of_id`, `basisRep_of_id`, `basisRep_of_linear_eq_id`,
  `basisRep_translation`: `U` is the unit matrix when the linear part of the motion is the identity
  (the `Nodup` of the component lists comes from `FullCart`, the spherical case from `T S Tᵀ = 1`);
  corollaries `overlap_array_translate`, `kinetic_array_translate`, `pointCharge_array_translate`
  (and the `…_moved_of_linear_eq_id` forms): the arrays of the translated basis (charges moved along)
  are entry-wise those of the original basis.
* §2 four-index arrays: `intertwine4` (algebra), `wBlock4_get8_eq_sum`, `wBlock4_moved_of_block`
  (shell quartet), the generic lemma `entry4_moved_of_blocks`, its instance `eri_array_moved` (true
  Boys function), `eri_flat_moved` (the flat array `assemble4`), `eri_array_translate`.
* §3 two-index arrays with a tensor index: `entry2_comb` (the assembled array is linear in the raw
  blocks), the generic lemma `entry2_moved_of_blocks_tensor`; `momentumBlk`, `angmomBlk`, `momentBlk`
  (the block arguments of the driver); `momentum_array_moved` (a vector), `moment_array_moved` (a
  Cartesian tensor, `monoRep`, origin moved along), `angmom_array_moved` / `angmom_array_moved_det`
  (cofactor matrix `= det R · R`, plus `(g 0) × P`); the flat forms `…_flat_moved`; the translation
  laws `momentum_array_translate`, `moment_array_translate`, `angmom_array_translate`
  (`L' = L + v × P`).
* §4 `shellMetric`, `basisMetric`, `shellRep_metric`, `basisRep_metric` (`U G Uᵀ = G`: plain
  orthogonality inside spherical shells, the overlap metric `Sov` of the normalised monomials inside
  Cartesian shells), `basisRep_orthogonal_of_sph` (`U Uᵀ = 1` for a basis of spherical shells).
-/
open Finset

namespace GB

/-! ## 1. Trivial linear part: `basisRep` is the unit matrix -/
section Identity

/-- the Cartesian representation matrix of a linear map that acts as the identity is the unit matrix
(duplicate-free component list, indices inside the list) -/
theorem repMat_of_id (R : E3 →ₗ[ℝ] E3) (hR : ∀ u, R u = u) (cart : List Comp) (hnd : cart.Nodup)
    {c c' : ℕ} (hc : c < cart.length) (hc' : c' < cart.length) :
    repMat R cart c c' = if c = c' then 1 else 0 := by
  rw [repMat_eq_monoRep, monoRep_id_nodup R hR cart hnd hc hc']
  by_cases h : c = c'
  · subst h
    rw [if_pos rfl, one_mul, div_self (normAng_pos _).ne']
  · rw [if_neg h, zero_mul, zero_div]

theorem sphDm_of_id (R : E3 →ₗ[ℝ] E3) (hR : ∀ u, R u = u) (l : ℕ) : sphDm R l = 1 := by
  ext a a'
  rw [sphDm, Matrix.of_apply, repMat_of_id R hR _ (fullCart_defaultCart l).1 a.2 a'.2,
    Matrix.one_apply]
  simp [Fin.ext_iff]

/-- the representation matrix of a pure shell under a linear map that acts as the identity is the unit
matrix: `T · 1 · S · Tᵀ = 1`, the orthonormality of the rows of the Cartesian → spherical matrix -/
theorem sphRep_of_id (R : E3 →ₗ[ℝ] E3) (hR : ∀ u, R u = u) (l : ℕ) (hl : l ≤ 10)
    {ls : List SphLabel} (hv : ValidSph l ls) {f f' : ℕ} (hf : f < ls.length)
    (hf' : f' < ls.length) :
    sphRep R l ls f f' = if f = f' then 1 else 0 := by
  rw [sphRep, dif_pos ⟨hf, hf'⟩, sphRepM, sphDm_of_id R hR, Matrix.mul_one,
    sphTm_sphSm_sphTm l hl hv, Matrix.one_apply]
  simp [Fin.ext_iff]

/-- the representation matrix of a movable shell (in its own coordinate type) under a linear map that
acts as the identity is the unit matrix -/
theorem shellRep_of_id (R : E3 →ₗ[ℝ] E3) (hR : ∀ u, R u = u) (s : Shell ℝ) (hs : s.Movable)
    {f f' : ℕ} (hf : f < s.nfun) (hf' : f' < s.nfun) :
    shellRep R s f f' = if f = f' then 1 else 0 := by
  unfold shellRep
  cases hsph : s.sph with
  | true =>
    obtain ⟨hl, hv⟩ := hs.sph_ok hsph
    have hn : s.nfun = s.sphOrd.length := by simp [Shell.nfun, hsph]
    rw [hn] at hf hf'
    simp only [if_true]
    exact sphRep_of_id R hR s.l hl hv hf hf'
  | false =>
    have hn : s.nfun = s.cart.length := by simp [Shell.nfun, hsph]
    rw [hn] at hf hf'
    simp only [Bool.false_eq_true, if_false]
    exact repMat_of_id R hR s.cart hs.full_cart.1 hf hf'

/-- **`basisRep` of a linear map that acts as the identity is the unit matrix** (movable basis,
indices inside the basis) -/
theorem basisRep_of_id (b : Basis ℝ) (hb : b.Movable) (R : E3 →ₗ[ℝ] E3) (hR : ∀ u, R u = u)
    (r r' : ℕ) (hr : r < b.total) (hr' : r' < b.total) :
    basisRep b R r r' = if r = r' then 1 else 0 := by
  obtain ⟨hi, hm, hf, hrr⟩ := locate_lt' b r hr
  obtain ⟨hi', hm', hf', hrr'⟩ := locate_lt' b r' hr'
  have hmv := shellOf_movable b hb r hr
  unfold basisRep
  by_cases h : r = r'
  · subst h
    rw [if_pos ⟨rfl, rfl⟩, if_pos rfl, shellRep_of_id R hR _ hmv hf hf, if_pos rfl]
  · rw [if_neg h]
    by_cases h2 : (b.locate r).1 = (b.locate r').1 ∧ (b.locate r).2.1 = (b.locate r').2.1
    · rw [if_pos h2]
      have hsh : shellOf b r' = shellOf b r := by unfold shellOf; rw [h2.1]
      have hsg : segOf b r' = segOf b r := by unfold segOf; rw [h2.2]
      rw [hsh] at hf' hrr'
      have hne : funOf b r ≠ funOf b r' := by
        intro e
        apply h
        rw [← hrr, ← hrr', hsg, e, h2.1]
      rw [shellRep_of_id R hR _ hmv hf hf', if_neg hne]
    · rw [if_neg h2]

lemma linPart_apply (g : E3 ≃ᵃⁱ[ℝ] E3) (u : E3) : linPart g u = g.linearIsometryEquiv u := rfl

/-- **`basisRep` is the unit matrix for every rigid motion whose linear part is the identity** -/
theorem basisRep_of_linear_eq_id (g : E3 ≃ᵃⁱ[ℝ] E3) (hg : ∀ u, g.linearIsometryEquiv u = u)
    (b : Basis ℝ) (hb : b.Movable) (r r' : ℕ) (hr : r < b.total) (hr' : r' < b.total) :
    basisRep b (linPart g) r r' = if r = r' then 1 else 0 :=
  basisRep_of_id b hb (linPart g) (fun u => by rw [linPart_apply, hg]) r r' hr hr'

/-- in particular for a translation -/
theorem basisRep_translation (v : E3) (b : Basis ℝ) (hb : b.Movable) (r r' : ℕ)
    (hr : r < b.total) (hr' : r' < b.total) :
    basisRep b (linPart (translation v)) r r' = if r = r' then 1 else 0 :=
  basisRep_of_id b hb _ (linPart_translation v) r r' hr hr'

/-- a `basisRep`-transformed two-index array is the array itself when the map acts as the identity -/
theorem sum_basisRep_of_id2 (b : Basis ℝ) (hb : b.Movable) (R : E3 →ₗ[ℝ] E3) (hR : ∀ u, R u = u)
    (X : ℕ → ℕ → ℝ) (r c : ℕ) (hr : r < b.total) (hc : c < b.total) :
    ∑ r' ∈ range b.total, ∑ c' ∈ range b.total, basisRep b R r r' * basisRep b R c c' * X r' c'
      = X r c := by
  have e : ∀ r' ∈ range b.total, ∀ c' ∈ range b.total,
      basisRep b R r r' * basisRep b R c c' * X r' c'
        = if c = c' then (if r = r' then X r' c' else 0) else 0 := by
    intro r' hr' c' hc'
    rw [basisRep_of_id b hb R hR r r' hr (Finset.mem_range.mp hr'),
      basisRep_of_id b hb R hR c c' hc (Finset.mem_range.mp hc')]
    split_ifs <;> simp
  rw [Finset.sum_congr rfl fun r' hr' => Finset.sum_congr rfl (e r' hr')]
  simp only [Finset.sum_ite_eq, Finset.mem_range, hr, hc, if_true]

/-- **Overlap array: invariant under every rigid motion with trivial linear part** -/
theorem overlap_array_moved_of_linear_eq_id (g : E3 ≃ᵃⁱ[ℝ] E3)
    (hg : ∀ u, g.linearIsometryEquiv u = u) (b : Basis ℝ) (hb : b.Movable) (r c : ℕ)
    (hr : r < b.total) (hc : c < b.total) :
    entry2 (b.moved g) (b.moved g)
        (pairBlocks (b.moved g) (b.moved g) 1 (overlapBlk (b.moved g))) r c 0
      = entry2 b b (pairBlocks b b 1 (overlapBlk b)) r c 0 := by
  rw [overlap_array_moved g b hb r c hr hc]
  exact sum_basisRep_of_id2 b hb _ (fun u => by rw [linPart_apply, hg])
    (fun r' c' => entry2 b b (pairBlocks b b 1 (overlapBlk b)) r' c' 0) r c hr hc

/-- **Kinetic-energy array: invariant under every rigid motion with trivial linear part** -/
theorem kinetic_array_moved_of_linear_eq_id (g : E3 ≃ᵃⁱ[ℝ] E3)
    (hg : ∀ u, g.linearIsometryEquiv u = u) (b : Basis ℝ) (hb : b.Movable) (r c : ℕ)
    (hr : r < b.total) (hc : c < b.total) :
    entry2 (b.moved g) (b.moved g)
        (pairBlocks (b.moved g) (b.moved g) 1 (kineticBlk (b.moved g))) r c 0
      = entry2 b b (pairBlocks b b 1 (kineticBlk b)) r c 0 := by
  rw [kinetic_array_moved g b hb r c hr hc]
  exact sum_basisRep_of_id2 b hb _ (fun u => by rw [linPart_apply, hg])
    (fun r' c' => entry2 b b (pairBlocks b b 1 (kineticBlk b)) r' c' 0) r c hr hc

/-- **Point-charge array: invariant under every rigid motion with trivial linear part**, the
charges moved along -/
theorem pointCharge_array_moved_of_linear_eq_id (boysT : ℝ → ℕ → Tab ℝ)
    (hboys : ∀ T n m, m < n → (boysT T n).get m = boys T m) (g : E3 ≃ᵃⁱ[ℝ] E3)
    (hg : ∀ u, g.linearIsometryEquiv u = u) (b : Basis ℝ) (hb : b.Movable) (np : ℕ)
    (pts : ℕ → ℕ → ℝ) (qs : ℕ → ℝ) (e r c : ℕ) (hr : r < b.total) (hc : c < b.total) :
    entry2 (b.moved g) (b.moved g)
        (pairBlocks (b.moved g) (b.moved g) np
          (pointChargeBlk boysT (b.moved g) np (fun e => movedPt g (pts e)) qs)) r c e
      = entry2 b b (pairBlocks b b np (pointChargeBlk boysT b np pts qs)) r c e := by
  rw [pointCharge_array_moved boysT hboys g b hb np pts qs e r c hr hc]
  exact sum_basisRep_of_id2 b hb _ (fun u => by rw [linPart_apply, hg])
    (fun r' c' => entry2 b b (pairBlocks b b np (pointChargeBlk boysT b np pts qs)) r' c' e)
    r c hr hc

/-- **C12, translation invariance of the overlap array of a whole (mixed Cartesian / spherical)
basis**: every entry of the array of the translated basis equals that of the original basis. -/
theorem overlap_array_translate (v : E3) (b : Basis ℝ) (hb : b.Movable) (r c : ℕ)
    (hr : r < b.total) (hc : c < b.total) :
    entry2 (b.moved (translation v)) (b.moved (translation v))
        (pairBlocks (b.moved (translation v)) (b.moved (translation v)) 1
          (overlapBlk (b.moved (translation v)))) r c 0
      = entry2 b b (pairBlocks b b 1 (overlapBlk b)) r c 0 :=
  overlap_array_moved_of_linear_eq_id (translation v) (translation_linear v) b hb r c hr hc

/-- **C12, translation invariance of the kinetic-energy array of a whole basis** -/
theorem kinetic_array_translate (v : E3) (b : Basis ℝ) (hb : b.Movable) (r c : ℕ)
    (hr : r < b.total) (hc : c < b.total) :
    entry2 (b.moved (translation v)) (b.moved (translation v))
        (pairBlocks (b.moved (translation v)) (b.moved (translation v)) 1
          (kineticBlk (b.moved (translation v)))) r c 0
      = entry2 b b (pairBlocks b b 1 (kineticBlk b)) r c 0 :=
  kinetic_array_moved_of_linear_eq_id (translation v) (translation_linear v) b hb r c hr hc

/-- **C12, translation invariance of the point-charge array of a whole basis**, the charges
translated along with the basis (`movedPt (translation v) (pts e)`, i.e. `v + pts e`:
`movedPt_translation`) -/
theorem pointCharge_array_translate (boysT : ℝ → ℕ → Tab ℝ)
    (hboys : ∀ T n m, m < n → (boysT T n).get m = boys T m) (v : E3) (b : Basis ℝ)
    (hb : b.Movable) (np : ℕ) (pts : ℕ → ℕ → ℝ) (qs : ℕ → ℝ) (e r c : ℕ)
    (hr : r < b.total) (hc : c < b.total) :
    entry2 (b.moved (translation v)) (b.moved (translation v))
        (pairBlocks (b.moved (translation v)) (b.moved (translation v)) np
          (pointChargeBlk boysT (b.moved (translation v)) np
            (fun e => movedPt (translation v) (pts e)) qs)) r c e
      = entry2 b b (pairBlocks b b np (pointChargeBlk boysT b np pts qs)) r c e :=
  pointCharge_array_moved_of_linear_eq_id boysT hboys (translation v) (translation_linear v) b hb
    np pts qs e r c hr hc

end Identity

/-! ## 2. Four-index arrays: the electron-repulsion array of a moved basis -/
section FourIndex

lemma add_eq_of_right (a : ℝ) {x y : ℝ} (h : x = y) : a + x = a + y := by rw [h]

lemma mul_eq_of_right (a : ℝ) {x y : ℝ} (h : x = y) : a * x = a * y := by rw [h]

/-- `intertwine_stage` over arbitrary index types -/
theorem intertwine_stage' {α β : Type*} (Sa : Finset α) (Sf : Finset β) (u : α → ℝ)
    (D : α → α → ℝ) (W : β → ℝ) (c : β → α → ℝ)
    (h : ∀ a' ∈ Sa, ∑ a ∈ Sa, u a * D a a' = ∑ f' ∈ Sf, W f' * c f' a') (X : α → ℝ) :
    ∑ a ∈ Sa, u a * ∑ a' ∈ Sa, D a a' * X a' = ∑ f' ∈ Sf, W f' * ∑ a' ∈ Sa, c f' a' * X a' := by
  calc ∑ a ∈ Sa, u a * ∑ a' ∈ Sa, D a a' * X a'
      = ∑ a ∈ Sa, ∑ a' ∈ Sa, u a * D a a' * X a' := by
        refine Finset.sum_congr rfl fun a _ => ?_
        rw [Finset.mul_sum]; exact Finset.sum_congr rfl fun a' _ => by ring
    _ = ∑ a' ∈ Sa, (∑ a ∈ Sa, u a * D a a') * X a' := by
        rw [Finset.sum_comm]
        exact Finset.sum_congr rfl fun a' _ => by rw [Finset.sum_mul]
    _ = ∑ a' ∈ Sa, (∑ f' ∈ Sf, W f' * c f' a') * X a' :=
        Finset.sum_congr rfl fun a' ha' => by rw [h a' ha']
    _ = ∑ a' ∈ Sa, ∑ f' ∈ Sf, W f' * c f' a' * X a' :=
        Finset.sum_congr rfl fun a' _ => by rw [Finset.sum_mul]
    _ = ∑ f' ∈ Sf, W f' * ∑ a' ∈ Sa, c f' a' * X a' := by
        rw [Finset.sum_comm]
        refine Finset.sum_congr rfl fun f' _ => ?_
        rw [Finset.mul_sum]; exact Finset.sum_congr rfl fun a' _ => by ring

/-- the intertwining hypothesis of `intertwine_stage'` is stable under tensor products -/
theorem intertwine_prod {α₁ α₂ β₁ β₂ : Type*} (S₁ : Finset α₁) (S₂ : Finset α₂) (T₁ : Finset β₁)
    (T₂ : Finset β₂) (u₁ : α₁ → ℝ) (u₂ : α₂ → ℝ) (D₁ : α₁ → α₁ → ℝ) (D₂ : α₂ → α₂ → ℝ)
    (W₁ : β₁ → ℝ) (W₂ : β₂ → ℝ) (c₁ : β₁ → α₁ → ℝ) (c₂ : β₂ → α₂ → ℝ)
    (h₁ : ∀ a' ∈ S₁, ∑ a ∈ S₁, u₁ a * D₁ a a' = ∑ f' ∈ T₁, W₁ f' * c₁ f' a')
    (h₂ : ∀ a' ∈ S₂, ∑ a ∈ S₂, u₂ a * D₂ a a' = ∑ f' ∈ T₂, W₂ f' * c₂ f' a') :
    ∀ a' ∈ S₁ ×ˢ S₂, ∑ a ∈ S₁ ×ˢ S₂, (u₁ a.1 * u₂ a.2) * (D₁ a.1 a'.1 * D₂ a.2 a'.2)
      = ∑ f' ∈ T₁ ×ˢ T₂, (W₁ f'.1 * W₂ f'.2) * (c₁ f'.1 a'.1 * c₂ f'.2 a'.2) := by
  intro a' ha'
  obtain ⟨h1', h2'⟩ := Finset.mem_product.mp ha'
  calc ∑ a ∈ S₁ ×ˢ S₂, (u₁ a.1 * u₂ a.2) * (D₁ a.1 a'.1 * D₂ a.2 a'.2)
      = (∑ a ∈ S₁, u₁ a * D₁ a a'.1) * (∑ a ∈ S₂, u₂ a * D₂ a a'.2) := by
        rw [Finset.sum_product, Finset.sum_mul_sum]
        exact Finset.sum_congr rfl fun a _ => Finset.sum_congr rfl fun a2 _ => by ring
    _ = (∑ f' ∈ T₁, W₁ f' * c₁ f' a'.1) * (∑ f' ∈ T₂, W₂ f' * c₂ f' a'.2) := by
        rw [h₁ _ h1', h₂ _ h2']
    _ = _ := by
        rw [Finset.sum_product, Finset.sum_mul_sum]
        exact Finset.sum_congr rfl fun a _ => Finset.sum_congr rfl fun a2 _ => by ring

/-- reversal of the order of four nested sums -/
theorem sum_rev4 {α β γ δ : Type*} (A : Finset α) (B : Finset β) (C : Finset γ) (D : Finset δ)
    (f : α → β → γ → δ → ℝ) :
    ∑ a ∈ A, ∑ b ∈ B, ∑ c ∈ C, ∑ d ∈ D, f a b c d
      = ∑ d ∈ D, ∑ c ∈ C, ∑ b ∈ B, ∑ a ∈ A, f a b c d := by
  calc ∑ a ∈ A, ∑ b ∈ B, ∑ c ∈ C, ∑ d ∈ D, f a b c d
      = ∑ a ∈ A, ∑ b ∈ B, ∑ d ∈ D, ∑ c ∈ C, f a b c d :=
        Finset.sum_congr rfl fun a _ => Finset.sum_congr rfl fun b _ => Finset.sum_comm
    _ = ∑ a ∈ A, ∑ d ∈ D, ∑ b ∈ B, ∑ c ∈ C, f a b c d :=
        Finset.sum_congr rfl fun a _ => Finset.sum_comm
    _ = ∑ d ∈ D, ∑ a ∈ A, ∑ b ∈ B, ∑ c ∈ C, f a b c d := Finset.sum_comm
    _ = ∑ d ∈ D, ∑ a ∈ A, ∑ c ∈ C, ∑ b ∈ B, f a b c d :=
        Finset.sum_congr rfl fun d _ => Finset.sum_congr rfl fun a _ => Finset.sum_comm
    _ = ∑ d ∈ D, ∑ c ∈ C, ∑ a ∈ A, ∑ b ∈ B, f a b c d :=
        Finset.sum_congr rfl fun d _ => Finset.sum_comm
    _ = ∑ d ∈ D, ∑ c ∈ C, ∑ b ∈ B, ∑ a ∈ A, f a b c d :=
        Finset.sum_congr rfl fun d _ => Finset.sum_congr rfl fun c _ => Finset.sum_comm

/-- a four-fold sum of products, staged index by index -/
theorem sum4_nest {α β γ δ : Type*} (A : Finset α) (B : Finset β) (C : Finset γ) (D : Finset δ)
    (p : α → ℝ) (q : β → ℝ) (r : γ → ℝ) (s : δ → ℝ) (X : α → β → γ → δ → ℝ) :
    ∑ a ∈ A, ∑ b ∈ B, ∑ c ∈ C, ∑ d ∈ D, p a * q b * r c * s d * X a b c d
      = ∑ a ∈ A, p a * ∑ b ∈ B, q b * ∑ c ∈ C, r c * ∑ d ∈ D, s d * X a b c d := by
  refine Finset.sum_congr rfl fun a _ => ?_
  rw [Finset.mul_sum]
  refine Finset.sum_congr rfl fun b _ => ?_
  rw [Finset.mul_sum, Finset.mul_sum]
  refine Finset.sum_congr rfl fun c _ => ?_
  rw [Finset.mul_sum, Finset.mul_sum, Finset.mul_sum]
  exact Finset.sum_congr rfl fun d _ => by ring

/-- **four indices at once**: if `Σ_a u_i(a) D_i(a,a') = Σ_f' W_i(f') c_i(f',a')` for `i = 1..4`, the
four-fold `u`-contraction of the four-fold `D`-transform of `X` is the four-fold `W`-combination of
the four-fold `c`-contractions of `X`. -/
theorem intertwine4 (S₁ S₂ S₃ S₄ T₁ T₂ T₃ T₄ : Finset ℕ) (u₁ u₂ u₃ u₄ : ℕ → ℝ)
    (D₁ D₂ D₃ D₄ : ℕ → ℕ → ℝ) (W₁ W₂ W₃ W₄ : ℕ → ℝ) (c₁ c₂ c₃ c₄ : ℕ → ℕ → ℝ)
    (h₁ : ∀ a' ∈ S₁, ∑ a ∈ S₁, u₁ a * D₁ a a' = ∑ f' ∈ T₁, W₁ f' * c₁ f' a')
    (h₂ : ∀ a' ∈ S₂, ∑ a ∈ S₂, u₂ a * D₂ a a' = ∑ f' ∈ T₂, W₂ f' * c₂ f' a')
    (h₃ : ∀ a' ∈ S₃, ∑ a ∈ S₃, u₃ a * D₃ a a' = ∑ f' ∈ T₃, W₃ f' * c₃ f' a')
    (h₄ : ∀ a' ∈ S₄, ∑ a ∈ S₄, u₄ a * D₄ a a' = ∑ f' ∈ T₄, W₄ f' * c₄ f' a')
    (X : ℕ → ℕ → ℕ → ℕ → ℝ) :
    ∑ a₁ ∈ S₁, ∑ a₂ ∈ S₂, ∑ a₃ ∈ S₃, ∑ a₄ ∈ S₄, u₁ a₁ * u₂ a₂ * u₃ a₃ * u₄ a₄
        * ∑ b₁ ∈ S₁, ∑ b₂ ∈ S₂, ∑ b₃ ∈ S₃, ∑ b₄ ∈ S₄,
            D₁ a₁ b₁ * D₂ a₂ b₂ * D₃ a₃ b₃ * D₄ a₄ b₄ * X b₁ b₂ b₃ b₄
      = ∑ f₁ ∈ T₁, ∑ f₂ ∈ T₂, ∑ f₃ ∈ T₃, ∑ f₄ ∈ T₄, W₁ f₁ * W₂ f₂ * W₃ f₃ * W₄ f₄
          * ∑ b₁ ∈ S₁, ∑ b₂ ∈ S₂, ∑ b₃ ∈ S₃, ∑ b₄ ∈ S₄,
              c₁ f₁ b₁ * c₂ f₂ b₂ * c₃ f₃ b₃ * c₄ f₄ b₄ * X b₁ b₂ b₃ b₄ := by
  have H := intertwine_stage' (S₁ ×ˢ (S₂ ×ˢ (S₃ ×ˢ S₄))) (T₁ ×ˢ (T₂ ×ˢ (T₃ ×ˢ T₄))) _ _ _ _
    (intertwine_prod S₁ _ T₁ _ u₁ _ D₁ _ W₁ _ c₁ _ h₁
      (intertwine_prod S₂ _ T₂ _ u₂ _ D₂ _ W₂ _ c₂ _ h₂
        (intertwine_prod S₃ S₄ T₃ T₄ u₃ u₄ D₃ D₄ W₃ W₄ c₃ c₄ h₃ h₄)))
    (fun a => X a.1 a.2.1 a.2.2.1 a.2.2.2)
  simp only [Finset.sum_product] at H
  refine Eq.trans ?_ (H.trans ?_)
  · refine Finset.sum_congr rfl fun a₁ _ => Finset.sum_congr rfl fun a₂ _ =>
      Finset.sum_congr rfl fun a₃ _ => Finset.sum_congr rfl fun a₄ _ => ?_
    rw [mul_assoc (u₁ a₁ * u₂ a₂), mul_assoc (u₁ a₁)]
    congr 1
    exact Finset.sum_congr rfl fun b₁ _ => Finset.sum_congr rfl fun b₂ _ =>
      Finset.sum_congr rfl fun b₃ _ => Finset.sum_congr rfl fun b₄ _ => by ring
  · refine Finset.sum_congr rfl fun a₁ _ => Finset.sum_congr rfl fun a₂ _ =>
      Finset.sum_congr rfl fun a₃ _ => Finset.sum_congr rfl fun a₄ _ => ?_
    symm
    rw [mul_assoc (W₁ a₁ * W₂ a₂), mul_assoc (W₁ a₁)]
    congr 1
    exact Finset.sum_congr rfl fun b₁ _ => Finset.sum_congr rfl fun b₂ _ =>
      Finset.sum_congr rfl fun b₃ _ => Finset.sum_congr rfl fun b₄ _ => by ring

/-- one stage of `wBlock4` as a sum over the Cartesian components, weighted by `cwS` -/
theorem applyW_eq_sum (s : Shell ℝ) (F : ℕ → ℕ → ℝ) (m f : ℕ) (hf : f < s.nfun) :
    applyW s s.weights F m f = ∑ a ∈ range s.ncart, cwS s m f a * F m a := by
  simp only [applyW, sumN_eq_sum]
  exact stage_eq s m f hf (fun a => F m a)

/-- entry of a normalised, transformed quartet block as a four-fold sum over the Cartesian components
of the four shells -/
theorem wBlock4_get8_eq_sum (sa sb sc sd : Shell ℝ) (raw : Tab8 ℝ) (ma fa mb fb mc fc md fd : ℕ)
    (hfa : fa < sa.nfun) (hfb : fb < sb.nfun) (hfc : fc < sc.nfun) (hfd : fd < sd.nfun) :
    (wBlock4 sa sb sc sd sa.weights sb.weights sc.weights sd.weights raw).get8
        ma fa mb fb mc fc md fd
      = ∑ a₁ ∈ range sa.ncart, ∑ a₂ ∈ range sb.ncart, ∑ a₃ ∈ range sc.ncart,
          ∑ a₄ ∈ range sd.ncart,
            cwS sa ma fa a₁ * cwS sb mb fb a₂ * cwS sc mc fc a₃ * cwS sd md fd a₄
              * raw.get8 ma a₁ mb a₂ mc a₃ md a₄ := by
  rw [wBlock4_get8, applyW_eq_sum sd _ md fd hfd]
  simp only [applyW_eq_sum sc _ mc fc hfc, applyW_eq_sum sb _ mb fb hfb,
    applyW_eq_sum sa _ ma fa hfa]
  refine (sum4_nest _ _ _ _ (cwS sd md fd) (cwS sc mc fc) (cwS sb mb fb) (cwS sa ma fa)
    (fun a₄ a₃ a₂ a₁ => raw.get8 ma a₁ mb a₂ mc a₃ md a₄)).symm.trans ?_
  refine (sum_rev4 (range sa.ncart) (range sb.ncart) (range sc.ncart) (range sd.ncart)
    (fun a₁ a₂ a₃ a₄ => cwS sd md fd a₄ * cwS sc mc fc a₃ * cwS sb mb fb a₂ * cwS sa ma fa a₁
      * raw.get8 ma a₁ mb a₂ mc a₃ md a₄)).symm.trans ?_
  exact Finset.sum_congr rfl fun a₁ _ => Finset.sum_congr rfl fun a₂ _ =>
    Finset.sum_congr rfl fun a₃ _ => Finset.sum_congr rfl fun a₄ _ => by ring

/-- **Shell-quartet level.**  If the raw Cartesian block `raw'` of the moved quartet is the four-fold
`repMat` transform of the raw block `raw` of the original quartet (on the segments `ma, mb, mc, md`),
then the normalised, transformed block of the moved quartet is the four-fold `shellRep` transform of
that of the original quartet. -/
theorem wBlock4_moved_of_block (g : E3 ≃ᵃⁱ[ℝ] E3) (sa sb sc sd : Shell ℝ) (ha : sa.Movable)
    (hb : sb.Movable) (hc : sc.Movable) (hd : sd.Movable) (raw raw' : Tab8 ℝ) (ma mb mc md : ℕ)
    (h : ∀ a₁ < sa.ncart, ∀ a₂ < sb.ncart, ∀ a₃ < sc.ncart, ∀ a₄ < sd.ncart,
      raw'.get8 ma a₁ mb a₂ mc a₃ md a₄
        = ∑ b₁ ∈ range sa.ncart, ∑ b₂ ∈ range sb.ncart, ∑ b₃ ∈ range sc.ncart,
            ∑ b₄ ∈ range sd.ncart,
              repMat (linPart g) sa.cart a₁ b₁ * repMat (linPart g) sb.cart a₂ b₂
                * repMat (linPart g) sc.cart a₃ b₃ * repMat (linPart g) sd.cart a₄ b₄
                * raw.get8 ma b₁ mb b₂ mc b₃ md b₄)
    (fa fb fc fd : ℕ) (hfa : fa < sa.nfun) (hfb : fb < sb.nfun) (hfc : fc < sc.nfun)
    (hfd : fd < sd.nfun) :
    (wBlock4 (sa.moved g) (sb.moved g) (sc.moved g) (sd.moved g) (sa.moved g).weights
        (sb.moved g).weights (sc.moved g).weights (sd.moved g).weights raw').get8
        ma fa mb fb mc fc md fd
      = ∑ f₁ ∈ range sa.nfun, ∑ f₂ ∈ range sb.nfun, ∑ f₃ ∈ range sc.nfun, ∑ f₄ ∈ range sd.nfun,
          shellRep (linPart g) sa fa f₁ * shellRep (linPart g) sb fb f₂
            * shellRep (linPart g) sc fc f₃ * shellRep (linPart g) sd fd f₄
            * (wBlock4 sa sb sc sd sa.weights sb.weights sc.weights sd.weights raw).get8
                ma f₁ mb f₂ mc f₃ md f₄ := by
  rw [wBlock4_get8_eq_sum (sa.moved g) (sb.moved g) (sc.moved g) (sd.moved g) raw' ma fa mb fb mc fc
    md fd hfa hfb hfc hfd]
  simp only [Shell.moved_ncart]
  have e1 : ∀ a₁ ∈ range sa.ncart, ∀ a₂ ∈ range sb.ncart, ∀ a₃ ∈ range sc.ncart,
      ∀ a₄ ∈ range sd.ncart,
        cwS (sa.moved g) ma fa a₁ * cwS (sb.moved g) mb fb a₂ * cwS (sc.moved g) mc fc a₃
            * cwS (sd.moved g) md fd a₄ * raw'.get8 ma a₁ mb a₂ mc a₃ md a₄
          = cwS (sa.moved g) ma fa a₁ * cwS (sb.moved g) mb fb a₂ * cwS (sc.moved g) mc fc a₃
            * cwS (sd.moved g) md fd a₄
            * ∑ b₁ ∈ range sa.ncart, ∑ b₂ ∈ range sb.ncart, ∑ b₃ ∈ range sc.ncart,
                ∑ b₄ ∈ range sd.ncart,
                  repMat (linPart g) sa.cart a₁ b₁ * repMat (linPart g) sb.cart a₂ b₂
                    * repMat (linPart g) sc.cart a₃ b₃ * repMat (linPart g) sd.cart a₄ b₄
                    * (fun b₁ b₂ b₃ b₄ => raw.get8 ma b₁ mb b₂ mc b₃ md b₄) b₁ b₂ b₃ b₄ := by
    intro a₁ h₁ a₂ h₂ a₃ h₃ a₄ h₄
    rw [h a₁ (Finset.mem_range.mp h₁) a₂ (Finset.mem_range.mp h₂) a₃ (Finset.mem_range.mp h₃) a₄
      (Finset.mem_range.mp h₄)]
  rw [Finset.sum_congr rfl fun a₁ h₁ => Finset.sum_congr rfl fun a₂ h₂ =>
    Finset.sum_congr rfl fun a₃ h₃ => Finset.sum_congr rfl fun a₄ h₄ => e1 a₁ h₁ a₂ h₂ a₃ h₃ a₄ h₄]
  rw [intertwine4 (range sa.ncart) (range sb.ncart) (range sc.ncart) (range sd.ncart)
    (range sa.nfun) (range sb.nfun) (range sc.nfun) (range sd.nfun)
    (cwS (sa.moved g) ma fa) (cwS (sb.moved g) mb fb) (cwS (sc.moved g) mc fc)
    (cwS (sd.moved g) md fd)
    (repMat (linPart g) sa.cart) (repMat (linPart g) sb.cart) (repMat (linPart g) sc.cart)
    (repMat (linPart g) sd.cart)
    (shellRep (linPart g) sa fa) (shellRep (linPart g) sb fb) (shellRep (linPart g) sc fc)
    (shellRep (linPart g) sd fd) (cwS sa ma) (cwS sb mb) (cwS sc mc) (cwS sd md)
    (fun a' ha' => cwS_moved_mul_repMat g sa ha ma fa a' hfa (Finset.mem_range.mp ha'))
    (fun a' ha' => cwS_moved_mul_repMat g sb hb mb fb a' hfb (Finset.mem_range.mp ha'))
    (fun a' ha' => cwS_moved_mul_repMat g sc hc mc fc a' hfc (Finset.mem_range.mp ha'))
    (fun a' ha' => cwS_moved_mul_repMat g sd hd md fd a' hfd (Finset.mem_range.mp ha'))
    (fun b₁ b₂ b₃ b₄ => raw.get8 ma b₁ mb b₂ mc b₃ md b₄)]
  refine Finset.sum_congr rfl fun f₁ hf₁ => Finset.sum_congr rfl fun f₂ hf₂ =>
    Finset.sum_congr rfl fun f₃ hf₃ => Finset.sum_congr rfl fun f₄ hf₄ => ?_
  rw [wBlock4_get8_eq_sum sa sb sc sd raw ma f₁ mb f₂ mc f₃ md f₄ (Finset.mem_range.mp hf₁)
    (Finset.mem_range.mp hf₂) (Finset.mem_range.mp hf₃) (Finset.mem_range.mp hf₄)]

/-- **Array level (the generic four-index lemma).**  If, for every quartet of shells of a movable
basis, the raw Cartesian block `blk' i j k l` used for the moved basis is the four-fold `repMat`
transform of the raw block `blk i j k l` used for the original basis, then every entry of the assembled
four-index array of the moved basis is the four-fold `basisRep` transform of the assembled array of the
original basis. -/
theorem entry4_moved_of_blocks (g : E3 ≃ᵃⁱ[ℝ] E3) (b : Basis ℝ) (hb : b.Movable)
    (blk blk' : ℕ → ℕ → ℕ → ℕ → Tab8 ℝ)
    (h : ∀ (i j k l : ℕ) (hi : i < b.size) (hj : j < b.size) (hk : k < b.size) (hl : l < b.size)
      (m₁ m₂ m₃ m₄ : ℕ),
      ∀ a₁ < b[i].ncart, ∀ a₂ < b[j].ncart, ∀ a₃ < b[k].ncart, ∀ a₄ < b[l].ncart,
        (blk' i j k l).get8 m₁ a₁ m₂ a₂ m₃ a₃ m₄ a₄
          = ∑ b₁ ∈ range b[i].ncart, ∑ b₂ ∈ range b[j].ncart, ∑ b₃ ∈ range b[k].ncart,
              ∑ b₄ ∈ range b[l].ncart,
                repMat (linPart g) b[i].cart a₁ b₁ * repMat (linPart g) b[j].cart a₂ b₂
                  * repMat (linPart g) b[k].cart a₃ b₃ * repMat (linPart g) b[l].cart a₄ b₄
                  * (blk i j k l).get8 m₁ b₁ m₂ b₂ m₃ b₃ m₄ b₄)
    (r₁ r₂ r₃ r₄ : ℕ) (h₁ : r₁ < b.total) (h₂ : r₂ < b.total) (h₃ : r₃ < b.total)
    (h₄ : r₄ < b.total) :
    entry4 (b.moved g) (b.moved g) (b.moved g) (b.moved g)
        (quartetBlocks (b.moved g) (b.moved g) (b.moved g) (b.moved g) blk') r₁ r₂ r₃ r₄
      = ∑ s₁ ∈ range b.total, ∑ s₂ ∈ range b.total, ∑ s₃ ∈ range b.total, ∑ s₄ ∈ range b.total,
          basisRep b (linPart g) r₁ s₁ * basisRep b (linPart g) r₂ s₂
            * basisRep b (linPart g) r₃ s₃ * basisRep b (linPart g) r₄ s₄
            * entry4 b b b b (quartetBlocks b b b b blk) s₁ s₂ s₃ s₄ := by
  obtain ⟨hi, hm₁, hf₁, -⟩ := locate_lt b r₁ h₁
  obtain ⟨hj, hm₂, hf₂, -⟩ := locate_lt b r₂ h₂
  obtain ⟨hk, hm₃, hf₃, -⟩ := locate_lt b r₃ h₃
  obtain ⟨hl, hm₄, hf₄, -⟩ := locate_lt b r₄ h₄
  have hs₁ := shellOf_eq b r₁ hi
  have hs₂ := shellOf_eq b r₂ hj
  have hs₃ := shellOf_eq b r₃ hk
  have hs₄ := shellOf_eq b r₄ hl
  rw [sum4_nest, sum_basisRep b _ r₁ h₁]
  simp_rw [sum_basisRep b _ r₂ h₂, sum_basisRep b _ r₃ h₃, sum_basisRep b _ r₄ h₄]
  rw [hs₁, hs₂, hs₃, hs₄]
  have hL : entry4 (b.moved g) (b.moved g) (b.moved g) (b.moved g)
        (quartetBlocks (b.moved g) (b.moved g) (b.moved g) (b.moved g) blk') r₁ r₂ r₃ r₄
      = (wBlock4 (b[(b.locate r₁).1].moved g) (b[(b.locate r₂).1].moved g)
          (b[(b.locate r₃).1].moved g) (b[(b.locate r₄).1].moved g)
          (b[(b.locate r₁).1].moved g).weights (b[(b.locate r₂).1].moved g).weights
          (b[(b.locate r₃).1].moved g).weights (b[(b.locate r₄).1].moved g).weights
          (blk' (b.locate r₁).1 (b.locate r₂).1 (b.locate r₃).1 (b.locate r₄).1)).get8
            (b.locate r₁).2.1 (b.locate r₁).2.2 (b.locate r₂).2.1 (b.locate r₂).2.2
            (b.locate r₃).2.1 (b.locate r₃).2.2 (b.locate r₄).2.1 (b.locate r₄).2.2 := by
    unfold entry4
    simp only [Basis.moved_locate]
    rw [quartetBlocks_get (b.moved g) (b.moved g) (b.moved g) (b.moved g) blk' _ _ _ _
      (by simpa using hi) (by simpa using hj) (by simpa using hk) (by simpa using hl),
      Basis.moved_getElem b g _ hi, Basis.moved_getElem b g _ hj, Basis.moved_getElem b g _ hk,
      Basis.moved_getElem b g _ hl]
  have hq := wBlock4_moved_of_block g b[(b.locate r₁).1] b[(b.locate r₂).1] b[(b.locate r₃).1]
    b[(b.locate r₄).1] (hb _ hi) (hb _ hj) (hb _ hk) (hb _ hl)
    (blk (b.locate r₁).1 (b.locate r₂).1 (b.locate r₃).1 (b.locate r₄).1)
    (blk' (b.locate r₁).1 (b.locate r₂).1 (b.locate r₃).1 (b.locate r₄).1)
    (b.locate r₁).2.1 (b.locate r₂).2.1 (b.locate r₃).2.1 (b.locate r₄).2.1
    (h (b.locate r₁).1 (b.locate r₂).1 (b.locate r₃).1 (b.locate r₄).1 hi hj hk hl
      (b.locate r₁).2.1 (b.locate r₂).2.1 (b.locate r₃).2.1 (b.locate r₄).2.1)
    (b.locate r₁).2.2 (b.locate r₂).2.2 (b.locate r₃).2.2 (b.locate r₄).2.2 hf₁ hf₂ hf₃ hf₄
  rw [hL, hq, sum4_nest]
  unfold segOf funOf
  refine Finset.sum_congr rfl fun f₁ hf₁' => mul_eq_of_right _ ?_
  refine Finset.sum_congr rfl fun f₂ hf₂' => mul_eq_of_right _ ?_
  refine Finset.sum_congr rfl fun f₃ hf₃' => mul_eq_of_right _ ?_
  refine Finset.sum_congr rfl fun f₄ hf₄' => mul_eq_of_right _ ?_
  exact (entry4_layout b b b b blk (b.locate r₁).1 (b.locate r₂).1 (b.locate r₃).1 (b.locate r₄).1
    hi hj hk hl (b.locate r₁).2.1 f₁ (b.locate r₂).2.1 f₂ (b.locate r₃).2.1 f₃ (b.locate r₄).2.1 f₄
    hm₁ (Finset.mem_range.mp hf₁') hm₂ (Finset.mem_range.mp hf₂') hm₃ (Finset.mem_range.mp hf₃') hm₄
    (Finset.mem_range.mp hf₄')).symm

/-- **C12, electron-repulsion array of a whole (mixed Cartesian / spherical) basis.**  For a movable
basis and every rigid motion `g` (translation, proper or improper rotation, and their compositions),
with the true Boys function in the blocks (`hboys`), every entry of the four-index electron-repulsion
array assembled for the moved basis is
`Σ U(r₁,s₁) U(r₂,s₂) U(r₃,s₃) U(r₄,s₄) (s₁ s₂ | s₃ s₄)` with `(· · | · ·)` the array of the original
basis and `U = basisRep b (linPart g)`. -/
theorem eri_array_moved (boysT : ℝ → ℕ → Tab ℝ)
    (hboys : ∀ T n m, m < n → (boysT T n).get m = boys T m) (g : E3 ≃ᵃⁱ[ℝ] E3) (b : Basis ℝ)
    (hb : b.Movable) (r₁ r₂ r₃ r₄ : ℕ) (h₁ : r₁ < b.total) (h₂ : r₂ < b.total)
    (h₃ : r₃ < b.total) (h₄ : r₄ < b.total) :
    entry4 (b.moved g) (b.moved g) (b.moved g) (b.moved g)
        (quartetBlocks (b.moved g) (b.moved g) (b.moved g) (b.moved g)
          (eriBlk boysT (b.moved g))) r₁ r₂ r₃ r₄
      = ∑ s₁ ∈ range b.total, ∑ s₂ ∈ range b.total, ∑ s₃ ∈ range b.total, ∑ s₄ ∈ range b.total,
          basisRep b (linPart g) r₁ s₁ * basisRep b (linPart g) r₂ s₂
            * basisRep b (linPart g) r₃ s₃ * basisRep b (linPart g) r₄ s₄
            * entry4 b b b b (quartetBlocks b b b b (eriBlk boysT b)) s₁ s₂ s₃ s₄ := by
  refine entry4_moved_of_blocks g b hb (eriBlk boysT b) (eriBlk boysT (b.moved g)) ?_
    r₁ r₂ r₃ r₄ h₁ h₂ h₃ h₄
  intro i j k l hi hj hk hl m₁ m₂ m₃ m₄ a₁ ha₁ a₂ ha₂ a₃ ha₃ a₄ ha₄
  simp only [eriBlk]
  rw [Basis.moved_getElem! b g i hi, Basis.moved_getElem! b g j hj, Basis.moved_getElem! b g k hk,
    Basis.moved_getElem! b g l hl, getElem!_pos b i hi, getElem!_pos b j hj, getElem!_pos b k hk,
    getElem!_pos b l hl]
  exact eriBlock_moved boysT hboys g b[i] b[j] b[k] b[l] m₁ a₁ m₂ a₂ m₃ a₃ m₄ a₄
    (hb i hi).exps_pos (hb j hj).exps_pos (hb k hk).exps_pos (hb l hl).exps_pos
    (hb i hi).full_cart (hb j hj).full_cart (hb k hk).full_cart (hb l hl).full_cart
    ha₁ ha₂ ha₃ ha₄

/-- **C12 for the flat electron-repulsion array** `assemble4 b (eriBlk boysT b)` (row-major
`[r₁][r₂][r₃][r₄]`, chemists' notation) -/
theorem eri_flat_moved (boysT : ℝ → ℕ → Tab ℝ)
    (hboys : ∀ T n m, m < n → (boysT T n).get m = boys T m) (g : E3 ≃ᵃⁱ[ℝ] E3) (b : Basis ℝ)
    (hb : b.Movable) (r₁ r₂ r₃ r₄ : ℕ) (h₁ : r₁ < b.total) (h₂ : r₂ < b.total)
    (h₃ : r₃ < b.total) (h₄ : r₄ < b.total) :
    (assemble4 (b.moved g) (eriBlk boysT (b.moved g)))[
        ((r₁ * b.total + r₂) * b.total + r₃) * b.total + r₄]!
      = ∑ s₁ ∈ range b.total, ∑ s₂ ∈ range b.total, ∑ s₃ ∈ range b.total, ∑ s₄ ∈ range b.total,
          basisRep b (linPart g) r₁ s₁ * basisRep b (linPart g) r₂ s₂
            * basisRep b (linPart g) r₃ s₃ * basisRep b (linPart g) r₄ s₄
            * (assemble4 b (eriBlk boysT b))[((s₁ * b.total + s₂) * b.total + s₃) * b.total + s₄]! := by
  have hL := assemble4_get (b.moved g) (eriBlk boysT (b.moved g)) r₁ r₂ r₃ r₄
    (by rw [Basis.moved_total]; exact h₁) (by rw [Basis.moved_total]; exact h₂)
    (by rw [Basis.moved_total]; exact h₃) (by rw [Basis.moved_total]; exact h₄)
  rw [Basis.moved_total] at hL
  rw [hL, eri_array_moved boysT hboys g b hb r₁ r₂ r₃ r₄ h₁ h₂ h₃ h₄]
  refine Finset.sum_congr rfl fun s₁ hs₁ => Finset.sum_congr rfl fun s₂ hs₂ =>
    Finset.sum_congr rfl fun s₃ hs₃ => Finset.sum_congr rfl fun s₄ hs₄ => ?_
  rw [assemble4_get b (eriBlk boysT b) s₁ s₂ s₃ s₄ (Finset.mem_range.mp hs₁)
    (Finset.mem_range.mp hs₂) (Finset.mem_range.mp hs₃) (Finset.mem_range.mp hs₄)]

/-- a four-fold `basisRep`-transformed array is the array itself when the map acts as the identity -/
theorem sum_basisRep_of_id4 (b : Basis ℝ) (hb : b.Movable) (R : E3 →ₗ[ℝ] E3) (hR : ∀ u, R u = u)
    (X : ℕ → ℕ → ℕ → ℕ → ℝ) (r₁ r₂ r₃ r₄ : ℕ) (h₁ : r₁ < b.total) (h₂ : r₂ < b.total)
    (h₃ : r₃ < b.total) (h₄ : r₄ < b.total) :
    ∑ s₁ ∈ range b.total, ∑ s₂ ∈ range b.total, ∑ s₃ ∈ range b.total, ∑ s₄ ∈ range b.total,
        basisRep b R r₁ s₁ * basisRep b R r₂ s₂ * basisRep b R r₃ s₃ * basisRep b R r₄ s₄
          * X s₁ s₂ s₃ s₄
      = X r₁ r₂ r₃ r₄ := by
  have e : ∀ s₁ ∈ range b.total, ∀ s₂ ∈ range b.total, ∀ s₃ ∈ range b.total, ∀ s₄ ∈ range b.total,
      basisRep b R r₁ s₁ * basisRep b R r₂ s₂ * basisRep b R r₃ s₃ * basisRep b R r₄ s₄
          * X s₁ s₂ s₃ s₄
        = if r₄ = s₄ then (if r₃ = s₃ then (if r₂ = s₂ then (if r₁ = s₁ then X s₁ s₂ s₃ s₄ else 0)
            else 0) else 0) else 0 := by
    intro s₁ hs₁ s₂ hs₂ s₃ hs₃ s₄ hs₄
    rw [basisRep_of_id b hb R hR r₁ s₁ h₁ (Finset.mem_range.mp hs₁),
      basisRep_of_id b hb R hR r₂ s₂ h₂ (Finset.mem_range.mp hs₂),
      basisRep_of_id b hb R hR r₃ s₃ h₃ (Finset.mem_range.mp hs₃),
      basisRep_of_id b hb R hR r₄ s₄ h₄ (Finset.mem_range.mp hs₄)]
    split_ifs <;> simp
  rw [Finset.sum_congr rfl fun s₁ hs₁ => Finset.sum_congr rfl fun s₂ hs₂ =>
    Finset.sum_congr rfl fun s₃ hs₃ => Finset.sum_congr rfl (e s₁ hs₁ s₂ hs₂ s₃ hs₃)]
  simp only [Finset.sum_ite_eq, Finset.mem_range, h₁, h₂, h₃, h₄, if_true]

/-- **Electron-repulsion array: invariant under every rigid motion with trivial linear part** -/
theorem eri_array_moved_of_linear_eq_id (boysT : ℝ → ℕ → Tab ℝ)
    (hboys : ∀ T n m, m < n → (boysT T n).get m = boys T m) (g : E3 ≃ᵃⁱ[ℝ] E3)
    (hg : ∀ u, g.linearIsometryEquiv u = u) (b : Basis ℝ) (hb : b.Movable) (r₁ r₂ r₃ r₄ : ℕ)
    (h₁ : r₁ < b.total) (h₂ : r₂ < b.total) (h₃ : r₃ < b.total) (h₄ : r₄ < b.total) :
    entry4 (b.moved g) (b.moved g) (b.moved g) (b.moved g)
        (quartetBlocks (b.moved g) (b.moved g) (b.moved g) (b.moved g)
          (eriBlk boysT (b.moved g))) r₁ r₂ r₃ r₄
      = entry4 b b b b (quartetBlocks b b b b (eriBlk boysT b)) r₁ r₂ r₃ r₄ := by
  rw [eri_array_moved boysT hboys g b hb r₁ r₂ r₃ r₄ h₁ h₂ h₃ h₄]
  exact sum_basisRep_of_id4 b hb _ (fun u => by rw [linPart_apply, hg])
    (fun s₁ s₂ s₃ s₄ => entry4 b b b b (quartetBlocks b b b b (eriBlk boysT b)) s₁ s₂ s₃ s₄)
    r₁ r₂ r₃ r₄ h₁ h₂ h₃ h₄

/-- **C12, translation invariance of the electron-repulsion array of a whole basis** -/
theorem eri_array_translate (boysT : ℝ → ℕ → Tab ℝ)
    (hboys : ∀ T n m, m < n → (boysT T n).get m = boys T m) (v : E3) (b : Basis ℝ)
    (hb : b.Movable) (r₁ r₂ r₃ r₄ : ℕ)
    (h₁ : r₁ < b.total) (h₂ : r₂ < b.total) (h₃ : r₃ < b.total) (h₄ : r₄ < b.total) :
    entry4 (b.moved (translation v)) (b.moved (translation v)) (b.moved (translation v))
        (b.moved (translation v))
        (quartetBlocks (b.moved (translation v)) (b.moved (translation v))
          (b.moved (translation v)) (b.moved (translation v))
          (eriBlk boysT (b.moved (translation v)))) r₁ r₂ r₃ r₄
      = entry4 b b b b (quartetBlocks b b b b (eriBlk boysT b)) r₁ r₂ r₃ r₄ :=
  eri_array_moved_of_linear_eq_id boysT hboys (translation v) (translation_linear v) b hb
    r₁ r₂ r₃ r₄ h₁ h₂ h₃ h₄

end FourIndex

/-! ## 3. Two-index arrays with a tensor index: momentum, multipole moments, angular momentum -/
section Tensor

/-- the raw block whose entries are the `C`-combination of the entries of a family of raw blocks -/
noncomputable def combTab4 {κ : Type*} (S : Finset κ) (C : κ → ℝ) (B : κ → Tab4 ℝ) : Tab4 ℝ :=
  tab4 0 0 0 0 fun m a n c => ∑ x ∈ S, C x * (B x).get4 m a n c

lemma combTab4_get4 {κ : Type*} (S : Finset κ) (C : κ → ℝ) (B : κ → Tab4 ℝ) (m a n c : ℕ) :
    (combTab4 S C B).get4 m a n c = ∑ x ∈ S, C x * (B x).get4 m a n c := by
  simp only [combTab4, tab4_get]

/-- a linear combination of doubly weighted sums is the doubly weighted sum of the combinations -/
lemma comb_sum2 {κ α β : Type*} (S : Finset κ) (A : Finset α) (B : Finset β) (C : κ → ℝ)
    (p : α → β → ℝ) (X : κ → α → β → ℝ) :
    ∑ x ∈ S, C x * ∑ a ∈ A, ∑ b ∈ B, p a b * X x a b
      = ∑ a ∈ A, ∑ b ∈ B, p a b * ∑ x ∈ S, C x * X x a b := by
  have e : ∀ x ∈ S, C x * ∑ a ∈ A, ∑ b ∈ B, p a b * X x a b
      = ∑ a ∈ A, ∑ b ∈ B, p a b * (C x * X x a b) := by
    intro x _
    rw [Finset.mul_sum]
    refine Finset.sum_congr rfl fun a _ => ?_
    rw [Finset.mul_sum]
    exact Finset.sum_congr rfl fun b _ => by ring
  rw [Finset.sum_congr (s₁ := S) rfl e, Finset.sum_comm]
  refine Finset.sum_congr rfl fun a _ => ?_
  rw [Finset.sum_comm]
  exact Finset.sum_congr rfl fun b _ => by rw [Finset.mul_sum]

/-- the normalised, transformed block is linear in the raw block -/
theorem wBlock2_comb {κ : Type*} (s t : Shell ℝ) (S : Finset κ) (C : κ → ℝ) (B : κ → Tab4 ℝ)
    (m f n k : ℕ) (hf : f < s.nfun) (hk : k < t.nfun) :
    (wBlock2 s t s.weights t.weights (combTab4 S C B)).get4 m f n k
      = ∑ x ∈ S, C x * (wBlock2 s t s.weights t.weights (B x)).get4 m f n k := by
  rw [wBlock2_get4_eq_sum s t _ m f n k hf hk]
  simp only [combTab4_get4]
  rw [← comb_sum2 S (range s.ncart) (range t.ncart) C (fun a a' => cwS s m f a * cwS t n k a')
    (fun x a a' => (B x).get4 m a n a')]
  refine Finset.sum_congr rfl fun x _ => ?_
  rw [wBlock2_get4_eq_sum s t _ m f n k hf hk]

/-- the assembled array is linear in the raw blocks -/
theorem entry2_comb {κ : Type*} (b : Basis ℝ) (S : Finset κ) (C : κ → ℝ) (nx : κ → ℕ)
    (blkx : κ → ℕ → ℕ → Tab (Tab4 ℝ)) (ex : κ → ℕ) (nextra e r c : ℕ) (hr : r < b.total)
    (hc : c < b.total) :
    entry2 b b (pairBlocks b b nextra
        (fun i j => tab nextra fun _ => combTab4 S C fun x => (blkx x i j).get (ex x))) r c e
      = ∑ x ∈ S, C x * entry2 b b (pairBlocks b b (nx x) (blkx x)) r c (ex x) := by
  obtain ⟨hi, hm, hf, -⟩ := locate_lt b r hr
  obtain ⟨hj, hn, hk, -⟩ := locate_lt b c hc
  unfold entry2
  dsimp only
  rw [pairBlocks_get b b nextra _ _ _ e hi hj]
  simp only [tab_get]
  rw [wBlock2_comb _ _ S C _ _ _ _ _ hf hk]
  refine Finset.sum_congr rfl fun x _ => ?_
  rw [pairBlocks_get b b (nx x) (blkx x) _ _ (ex x) hi hj]

/-- **Array level, with a tensor index (the generic lemma).**  If, for every pair of shells of a
movable basis, slice `e` of the raw block used for the moved basis is a linear combination
`Σ_{x ∈ S} C x · (repMat-transformed slice (ex x) of the raw block (blkx x) of the original basis)`,
then entry `(r, c, e)` of the assembled array of the moved basis is the same combination of the
`basisRep`-transformed assembled arrays of the original basis. -/
theorem entry2_moved_of_blocks_tensor {κ : Type*} (g : E3 ≃ᵃⁱ[ℝ] E3) (b : Basis ℝ)
    (hb : b.Movable) (S : Finset κ) (C : κ → ℝ) (nx : κ → ℕ)
    (blkx : κ → ℕ → ℕ → Tab (Tab4 ℝ)) (ex : κ → ℕ) (nextra : ℕ) (blk' : ℕ → ℕ → Tab (Tab4 ℝ))
    (e : ℕ)
    (h : ∀ (i j : ℕ) (hi : i < b.size) (hj : j < b.size) (m n : ℕ),
      ∀ a < b[i].ncart, ∀ c < b[j].ncart, ((blk' i j).get e).get4 m a n c
        = ∑ x ∈ S, C x * ∑ a' ∈ range b[i].ncart, ∑ c' ∈ range b[j].ncart,
            repMat (linPart g) b[i].cart a a' * repMat (linPart g) b[j].cart c c'
              * ((blkx x i j).get (ex x)).get4 m a' n c')
    (r c : ℕ) (hr : r < b.total) (hc : c < b.total) :
    entry2 (b.moved g) (b.moved g) (pairBlocks (b.moved g) (b.moved g) nextra blk') r c e
      = ∑ x ∈ S, C x * ∑ r' ∈ range b.total, ∑ c' ∈ range b.total,
          basisRep b (linPart g) r r' * basisRep b (linPart g) c c'
            * entry2 b b (pairBlocks b b (nx x) (blkx x)) r' c' (ex x) := by
  rw [entry2_moved_of_blocks g b hb nextra
    (fun i j => tab nextra fun _ => combTab4 S C fun x => (blkx x i j).get (ex x)) blk' e ?_
    r c hr hc]
  · have e1 : ∀ r' ∈ range b.total, ∀ c' ∈ range b.total,
        basisRep b (linPart g) r r' * basisRep b (linPart g) c c'
            * entry2 b b (pairBlocks b b nextra
              (fun i j => tab nextra fun _ => combTab4 S C fun x => (blkx x i j).get (ex x)))
              r' c' e
          = basisRep b (linPart g) r r' * basisRep b (linPart g) c c'
              * ∑ x ∈ S, C x * entry2 b b (pairBlocks b b (nx x) (blkx x)) r' c' (ex x) := by
      intro r' hr' c' hc'
      rw [entry2_comb b S C nx blkx ex nextra e r' c' (Finset.mem_range.mp hr')
        (Finset.mem_range.mp hc')]
    rw [Finset.sum_congr (s₁ := range b.total) rfl fun r' hr' =>
      Finset.sum_congr (s₁ := range b.total) rfl (e1 r' hr')]
    exact (comb_sum2 S (range b.total) (range b.total) C
      (fun r' c' => basisRep b (linPart g) r r' * basisRep b (linPart g) c c')
      (fun x r' c' => entry2 b b (pairBlocks b b (nx x) (blkx x)) r' c' (ex x))).symm
  · intro i j hi hj m n a ha c' hc'
    rw [h i j hi hj m n a ha c' hc']
    simp only [tab_get, combTab4_get4]
    exact comb_sum2 S (range b[i].ncart) (range b[j].ncart) C
      (fun a' c'' => repMat (linPart g) b[i].cart a a' * repMat (linPart g) b[j].cart c' c'')
      (fun x a' c'' => ((blkx x i j).get (ex x)).get4 m a' n c'')

/-! ### the block arguments of the driver -/

/-- **C12, momentum array of a whole (mixed Cartesian / spherical) basis: a vector.**  For a movable
basis and every rigid motion `g` with linear part `R`: slice `k` of the array of the moved basis is
`Σ_j R_kj Σ_{r', c'} U(r,r') U(c,c') P_j(r',c')`, `P_j` the slices of the array of the original basis,
`U = basisRep b (linPart g)`, `R_kj = matOf (linPart g) k j`. -/
theorem momentum_array_moved (g : E3 ≃ᵃⁱ[ℝ] E3) (b : Basis ℝ) (hb : b.Movable) (k : Fin 3)
    (r c : ℕ) (hr : r < b.total) (hc : c < b.total) :
    entry2 (b.moved g) (b.moved g)
        (pairBlocks (b.moved g) (b.moved g) 3 (momentumBlk (b.moved g))) r c k
      = ∑ j : Fin 3, matOf (linPart g) k j * ∑ r' ∈ range b.total, ∑ c' ∈ range b.total,
          basisRep b (linPart g) r r' * basisRep b (linPart g) c c'
            * entry2 b b (pairBlocks b b 3 (momentumBlk b)) r' c' j := by
  refine entry2_moved_of_blocks_tensor g b hb (univ : Finset (Fin 3)) (matOf (linPart g) k)
    (fun _ => 3) (fun _ => momentumBlk b) (fun j => (j : ℕ)) 3 (momentumBlk (b.moved g)) k ?_
    r c hr hc
  intro i j hi hj m n a ha c' hc'
  simp only [momentumBlk]
  rw [Basis.moved_getElem! b g i hi, Basis.moved_getElem! b g j hj, getElem!_pos b i hi,
    getElem!_pos b j hj]
  exact momentumBlock_moved g b[i] b[j] k m a n c' (hb i hi).exps_pos (hb j hj).exps_pos
    (hb i hi).full_cart (hb j hj).full_cart ha hc'

/-- **C12, multipole-moment array of a whole basis: a Cartesian tensor** on the order index, the
origin of the moments moved along with the basis.  For a full list `orders` of the order triples of
total degree `n` (`FullCart n orders`; forced: a rotated monomial needs all monomials of its degree)
and `d < orders.length`: slice `d` of the array of the moved basis (origin `g O`) is
`Σ_{d'} T_{dd'} Σ_{r', c'} U(r,r') U(c,c') M_{d'}(r',c')` with `T = monoRep (linPart g) orders`. -/
theorem moment_array_moved (g : E3 ≃ᵃⁱ[ℝ] E3) (b : Basis ℝ) (hb : b.Movable) (O : ℕ → ℝ) {n : ℕ}
    (orders : List Comp) (hfo : FullCart n orders) (d : ℕ) (hd : d < orders.length)
    (r c : ℕ) (hr : r < b.total) (hc : c < b.total) :
    entry2 (b.moved g) (b.moved g)
        (pairBlocks (b.moved g) (b.moved g) orders.length
          (momentBlk (b.moved g) (movedPt g O) orders)) r c d
      = ∑ d' ∈ range orders.length, monoRep (linPart g) orders d d'
          * ∑ r' ∈ range b.total, ∑ c' ∈ range b.total,
              basisRep b (linPart g) r r' * basisRep b (linPart g) c c'
                * entry2 b b (pairBlocks b b orders.length (momentBlk b O orders)) r' c' d' := by
  refine entry2_moved_of_blocks_tensor g b hb (range orders.length)
    (monoRep (linPart g) orders d) (fun _ => orders.length) (fun _ => momentBlk b O orders)
    (fun d' => d') orders.length (momentBlk (b.moved g) (movedPt g O) orders) d ?_ r c hr hc
  intro i j hi hj m n' a ha c' hc'
  simp only [momentBlk]
  rw [Basis.moved_getElem! b g i hi, Basis.moved_getElem! b g j hj, getElem!_pos b i hi,
    getElem!_pos b j hj,
    momentBlock_moved g b[i] b[j] O orders d m a n' c' (hb i hi).exps_pos (hb j hj).exps_pos
      (hb i hi).full_cart (hb j hj).full_cart hfo hd ha hc']
  refine Finset.sum_congr rfl fun d' _ => ?_
  rw [Finset.mul_sum]
  refine Finset.sum_congr rfl fun a' _ => ?_
  rw [Finset.mul_sum]
  exact Finset.sum_congr rfl fun c'' _ => by ring

/-- **C12, angular-momentum array of a whole basis** (about the coordinate origin) under every rigid
motion `g r = g 0 + R r`: slice `k` of the array of the moved basis is
`Σ_j cof(R)_kj L^U_j + (g 0)_{k+1} (R P^U)_{k+2} − (g 0)_{k+2} (R P^U)_{k+1}` (indices mod 3), where
`X^U_j = Σ_{r', c'} U(r,r') U(c,c') X_j(r',c')`, `L` the angular-momentum and `P` the momentum array of
the original basis: the rotated angular momentum (cofactor matrix `cof R = det R · R`: a pseudo-vector)
plus `(g 0) × (rotated momentum)`. -/
theorem angmom_array_moved (g : E3 ≃ᵃⁱ[ℝ] E3) (b : Basis ℝ) (hb : b.Movable) (k : Fin 3)
    (r c : ℕ) (hr : r < b.total) (hc : c < b.total) :
    entry2 (b.moved g) (b.moved g)
        (pairBlocks (b.moved g) (b.moved g) 3 (angmomBlk (b.moved g))) r c k
      = ∑ j : Fin 3, cof (linPart g) k j * ∑ r' ∈ range b.total, ∑ c' ∈ range b.total,
            basisRep b (linPart g) r r' * basisRep b (linPart g) c c'
              * entry2 b b (pairBlocks b b 3 (angmomBlk b)) r' c' j
        + (g 0 (k + 1) * ∑ j : Fin 3, matOf (linPart g) (k + 2) j
              * ∑ r' ∈ range b.total, ∑ c' ∈ range b.total,
                  basisRep b (linPart g) r r' * basisRep b (linPart g) c c'
                    * entry2 b b (pairBlocks b b 3 (momentumBlk b)) r' c' j
          - g 0 (k + 2) * ∑ j : Fin 3, matOf (linPart g) (k + 1) j
              * ∑ r' ∈ range b.total, ∑ c' ∈ range b.total,
                  basisRep b (linPart g) r r' * basisRep b (linPart g) c c'
                    * entry2 b b (pairBlocks b b 3 (momentumBlk b)) r' c' j) := by
  have H := entry2_moved_of_blocks_tensor g b hb (univ : Finset (Fin 3 ⊕ Fin 3))
    (Sum.elim (cof (linPart g) k) (fun j => g 0 (k + 1) * matOf (linPart g) (k + 2) j
      - g 0 (k + 2) * matOf (linPart g) (k + 1) j))
    (fun _ => 3) (Sum.elim (fun _ => angmomBlk b) (fun _ => momentumBlk b))
    (Sum.elim (fun j => (j : ℕ)) (fun j => (j : ℕ))) 3 (angmomBlk (b.moved g)) k ?_ r c hr hc
  · rw [H, Fintype.sum_sum_type]
    simp only [Sum.elim_inl, Sum.elim_inr]
    refine add_eq_of_right _ ?_
    rw [Finset.mul_sum, Finset.mul_sum, ← Finset.sum_sub_distrib]
    exact Finset.sum_congr rfl fun j _ => by ring
  · intro i j hi hj m n a ha c' hc'
    rw [Fintype.sum_sum_type]
    simp only [Sum.elim_inl, Sum.elim_inr, angmomBlk, momentumBlk]
    rw [Basis.moved_getElem! b g i hi, Basis.moved_getElem! b g j hj, getElem!_pos b i hi,
      getElem!_pos b j hj,
      angmomBlock_moved g b[i] b[j] k m a n c' (hb i hi).exps_pos (hb j hj).exps_pos
        (hb i hi).full_cart (hb j hj).full_cart ha hc']
    refine add_eq_of_right _ ?_
    rw [Finset.mul_sum, Finset.mul_sum, ← Finset.sum_sub_distrib]
    exact Finset.sum_congr rfl fun j _ => by ring

/-- the same with `cof R = det R · R` (`cof_eq_det_smul`): the angular momentum is a pseudo-vector -/
theorem angmom_array_moved_det (g : E3 ≃ᵃⁱ[ℝ] E3) (b : Basis ℝ) (hb : b.Movable) (k : Fin 3)
    (r c : ℕ) (hr : r < b.total) (hc : c < b.total) :
    entry2 (b.moved g) (b.moved g)
        (pairBlocks (b.moved g) (b.moved g) 3 (angmomBlk (b.moved g))) r c k
      = detOf (linPart g) * ∑ j : Fin 3, matOf (linPart g) k j
            * ∑ r' ∈ range b.total, ∑ c' ∈ range b.total,
                basisRep b (linPart g) r r' * basisRep b (linPart g) c c'
                  * entry2 b b (pairBlocks b b 3 (angmomBlk b)) r' c' j
        + (g 0 (k + 1) * ∑ j : Fin 3, matOf (linPart g) (k + 2) j
              * ∑ r' ∈ range b.total, ∑ c' ∈ range b.total,
                  basisRep b (linPart g) r r' * basisRep b (linPart g) c c'
                    * entry2 b b (pairBlocks b b 3 (momentumBlk b)) r' c' j
          - g 0 (k + 2) * ∑ j : Fin 3, matOf (linPart g) (k + 1) j
              * ∑ r' ∈ range b.total, ∑ c' ∈ range b.total,
                  basisRep b (linPart g) r r' * basisRep b (linPart g) c c'
                    * entry2 b b (pairBlocks b b 3 (momentumBlk b)) r' c' j) := by
  rw [angmom_array_moved g b hb k r c hr hc]
  refine congrArg (· + _) ?_
  rw [Finset.mul_sum]
  refine Finset.sum_congr rfl fun j _ => ?_
  have h := cof_eq_det_smul g.linearIsometryEquiv k j
  unfold linPart
  rw [h, mul_assoc]

/-! ### the flat arrays `assemble2 …` that the driver prints -/

/-- a `basisRep`-transformed slice of a flat array in terms of `entry2` -/
lemma flat_sum_eq (b : Basis ℝ) (R : E3 →ₗ[ℝ] E3) (nextra : ℕ) (blk : ℕ → ℕ → Tab (Tab4 ℝ))
    (r c e : ℕ) (he : e < nextra) :
    ∑ r' ∈ range b.total, ∑ c' ∈ range b.total, basisRep b R r r' * basisRep b R c c'
        * (assemble2 b b nextra blk)[(r' * b.total + c') * nextra + e]!
      = ∑ r' ∈ range b.total, ∑ c' ∈ range b.total, basisRep b R r r' * basisRep b R c c'
        * entry2 b b (pairBlocks b b nextra blk) r' c' e := by
  refine Finset.sum_congr rfl fun r' hr' => Finset.sum_congr rfl fun c' hc' => ?_
  rw [assemble2_get b b nextra blk r' c' e (Finset.mem_range.mp hr') (Finset.mem_range.mp hc') he]

lemma flat_moved_eq (g : E3 ≃ᵃⁱ[ℝ] E3) (b : Basis ℝ) (nextra : ℕ) (blk' : ℕ → ℕ → Tab (Tab4 ℝ))
    (r c e : ℕ) (hr : r < b.total) (hc : c < b.total) (he : e < nextra) :
    (assemble2 (b.moved g) (b.moved g) nextra blk')[(r * b.total + c) * nextra + e]!
      = entry2 (b.moved g) (b.moved g) (pairBlocks (b.moved g) (b.moved g) nextra blk') r c e := by
  have hL := assemble2_get (b.moved g) (b.moved g) nextra blk' r c e
    (by rw [Basis.moved_total]; exact hr) (by rw [Basis.moved_total]; exact hc) he
  rw [Basis.moved_total] at hL
  exact hL

/-- **C12 for the flat momentum array** `assemble2 b b 3 (momentumBlk b)` (`[r][c][k]`) -/
theorem momentum_flat_moved (g : E3 ≃ᵃⁱ[ℝ] E3) (b : Basis ℝ) (hb : b.Movable) (k : Fin 3)
    (r c : ℕ) (hr : r < b.total) (hc : c < b.total) :
    (assemble2 (b.moved g) (b.moved g) 3 (momentumBlk (b.moved g)))[(r * b.total + c) * 3 + k]!
      = ∑ j : Fin 3, matOf (linPart g) k j * ∑ r' ∈ range b.total, ∑ c' ∈ range b.total,
          basisRep b (linPart g) r r' * basisRep b (linPart g) c c'
            * (assemble2 b b 3 (momentumBlk b))[(r' * b.total + c') * 3 + j]! := by
  rw [flat_moved_eq g b 3 _ r c k hr hc k.isLt, momentum_array_moved g b hb k r c hr hc]
  refine Finset.sum_congr rfl fun j _ => ?_
  rw [flat_sum_eq b _ 3 (momentumBlk b) r c j j.isLt]

/-- **C12 for the flat multipole-moment array** (`[r][c][d]`, origin moved along) -/
theorem moment_flat_moved (g : E3 ≃ᵃⁱ[ℝ] E3) (b : Basis ℝ) (hb : b.Movable) (O : ℕ → ℝ) {n : ℕ}
    (orders : List Comp) (hfo : FullCart n orders) (d : ℕ) (hd : d < orders.length)
    (r c : ℕ) (hr : r < b.total) (hc : c < b.total) :
    (assemble2 (b.moved g) (b.moved g) orders.length
        (momentBlk (b.moved g) (movedPt g O) orders))[(r * b.total + c) * orders.length + d]!
      = ∑ d' ∈ range orders.length, monoRep (linPart g) orders d d'
          * ∑ r' ∈ range b.total, ∑ c' ∈ range b.total,
              basisRep b (linPart g) r r' * basisRep b (linPart g) c c'
                * (assemble2 b b orders.length (momentBlk b O orders))[
                    (r' * b.total + c') * orders.length + d']! := by
  rw [flat_moved_eq g b orders.length _ r c d hr hc hd,
    moment_array_moved g b hb O orders hfo d hd r c hr hc]
  refine Finset.sum_congr rfl fun d' hd' => ?_
  rw [flat_sum_eq b _ orders.length (momentBlk b O orders) r c d' (Finset.mem_range.mp hd')]

/-- **C12 for the flat angular-momentum array** (`[r][c][k]`) -/
theorem angmom_flat_moved (g : E3 ≃ᵃⁱ[ℝ] E3) (b : Basis ℝ) (hb : b.Movable) (k : Fin 3)
    (r c : ℕ) (hr : r < b.total) (hc : c < b.total) :
    (assemble2 (b.moved g) (b.moved g) 3 (angmomBlk (b.moved g)))[(r * b.total + c) * 3 + k]!
      = ∑ j : Fin 3, cof (linPart g) k j * ∑ r' ∈ range b.total, ∑ c' ∈ range b.total,
            basisRep b (linPart g) r r' * basisRep b (linPart g) c c'
              * (assemble2 b b 3 (angmomBlk b))[(r' * b.total + c') * 3 + j]!
        + (g 0 (k + 1) * ∑ j : Fin 3, matOf (linPart g) (k + 2) j
              * ∑ r' ∈ range b.total, ∑ c' ∈ range b.total,
                  basisRep b (linPart g) r r' * basisRep b (linPart g) c c'
                    * (assemble2 b b 3 (momentumBlk b))[(r' * b.total + c') * 3 + j]!
          - g 0 (k + 2) * ∑ j : Fin 3, matOf (linPart g) (k + 1) j
              * ∑ r' ∈ range b.total, ∑ c' ∈ range b.total,
                  basisRep b (linPart g) r r' * basisRep b (linPart g) c c'
                    * (assemble2 b b 3 (momentumBlk b))[(r' * b.total + c') * 3 + j]!) := by
  rw [flat_moved_eq g b 3 _ r c k hr hc k.isLt, angmom_array_moved g b hb k r c hr hc]
  have e1 : ∀ j : Fin 3, ∑ r' ∈ range b.total, ∑ c' ∈ range b.total,
      basisRep b (linPart g) r r' * basisRep b (linPart g) c c'
        * (assemble2 b b 3 (angmomBlk b))[(r' * b.total + c') * 3 + j]!
      = ∑ r' ∈ range b.total, ∑ c' ∈ range b.total,
        basisRep b (linPart g) r r' * basisRep b (linPart g) c c'
          * entry2 b b (pairBlocks b b 3 (angmomBlk b)) r' c' j :=
    fun j => flat_sum_eq b _ 3 (angmomBlk b) r c j j.isLt
  have e2 : ∀ j : Fin 3, ∑ r' ∈ range b.total, ∑ c' ∈ range b.total,
      basisRep b (linPart g) r r' * basisRep b (linPart g) c c'
        * (assemble2 b b 3 (momentumBlk b))[(r' * b.total + c') * 3 + j]!
      = ∑ r' ∈ range b.total, ∑ c' ∈ range b.total,
        basisRep b (linPart g) r r' * basisRep b (linPart g) c c'
          * entry2 b b (pairBlocks b b 3 (momentumBlk b)) r' c' j :=
    fun j => flat_sum_eq b _ 3 (momentumBlk b) r c j j.isLt
  simp only [e1, e2]

/-! ### trivial linear part: translations -/

lemma matOf_linPart_of_linear_eq_id (g : E3 ≃ᵃⁱ[ℝ] E3) (hg : ∀ u, g.linearIsometryEquiv u = u)
    (i j : Fin 3) : matOf (linPart g) i j = if i = j then 1 else 0 :=
  matOf_of_id (linPart g) (fun u => by rw [linPart_apply, hg]) i j

lemma cof_of_linear_eq_id (g : E3 ≃ᵃⁱ[ℝ] E3) (hg : ∀ u, g.linearIsometryEquiv u = u)
    (k j : Fin 3) : cof (linPart g) k j = if k = j then 1 else 0 := by
  unfold cof cofM
  simp only [matOf_linPart_of_linear_eq_id g hg]
  fin_cases k <;> fin_cases j <;> simp

/-- **Momentum array: invariant under every rigid motion with trivial linear part** -/
theorem momentum_array_moved_of_linear_eq_id (g : E3 ≃ᵃⁱ[ℝ] E3)
    (hg : ∀ u, g.linearIsometryEquiv u = u) (b : Basis ℝ) (hb : b.Movable) (k : Fin 3)
    (r c : ℕ) (hr : r < b.total) (hc : c < b.total) :
    entry2 (b.moved g) (b.moved g)
        (pairBlocks (b.moved g) (b.moved g) 3 (momentumBlk (b.moved g))) r c k
      = entry2 b b (pairBlocks b b 3 (momentumBlk b)) r c k := by
  rw [momentum_array_moved g b hb k r c hr hc]
  have e : ∀ j : Fin 3, ∑ r' ∈ range b.total, ∑ c' ∈ range b.total,
      basisRep b (linPart g) r r' * basisRep b (linPart g) c c'
        * entry2 b b (pairBlocks b b 3 (momentumBlk b)) r' c' j
      = entry2 b b (pairBlocks b b 3 (momentumBlk b)) r c j := fun j =>
    sum_basisRep_of_id2 b hb _ (fun u => by rw [linPart_apply, hg])
      (fun r' c' => entry2 b b (pairBlocks b b 3 (momentumBlk b)) r' c' j) r c hr hc
  simp only [e, matOf_linPart_of_linear_eq_id g hg, ite_mul, one_mul, zero_mul,
    Finset.sum_ite_eq, Finset.mem_univ, if_true]

/-- **C12, translation invariance of the momentum array of a whole basis** -/
theorem momentum_array_translate (v : E3) (b : Basis ℝ) (hb : b.Movable) (k : Fin 3)
    (r c : ℕ) (hr : r < b.total) (hc : c < b.total) :
    entry2 (b.moved (translation v)) (b.moved (translation v))
        (pairBlocks (b.moved (translation v)) (b.moved (translation v)) 3
          (momentumBlk (b.moved (translation v)))) r c k
      = entry2 b b (pairBlocks b b 3 (momentumBlk b)) r c k :=
  momentum_array_moved_of_linear_eq_id (translation v) (translation_linear v) b hb k r c hr hc

/-- **Multipole-moment array: invariant under every rigid motion with trivial linear part**, the
origin moved along (full order list, `d` inside the list) -/
theorem moment_array_moved_of_linear_eq_id (g : E3 ≃ᵃⁱ[ℝ] E3)
    (hg : ∀ u, g.linearIsometryEquiv u = u) (b : Basis ℝ) (hb : b.Movable) (O : ℕ → ℝ) {n : ℕ}
    (orders : List Comp) (hfo : FullCart n orders) (d : ℕ) (hd : d < orders.length)
    (r c : ℕ) (hr : r < b.total) (hc : c < b.total) :
    entry2 (b.moved g) (b.moved g)
        (pairBlocks (b.moved g) (b.moved g) orders.length
          (momentBlk (b.moved g) (movedPt g O) orders)) r c d
      = entry2 b b (pairBlocks b b orders.length (momentBlk b O orders)) r c d := by
  rw [moment_array_moved g b hb O orders hfo d hd r c hr hc]
  have e : ∀ d' ∈ range orders.length, monoRep (linPart g) orders d d'
      * ∑ r' ∈ range b.total, ∑ c' ∈ range b.total,
          basisRep b (linPart g) r r' * basisRep b (linPart g) c c'
            * entry2 b b (pairBlocks b b orders.length (momentBlk b O orders)) r' c' d'
      = if d = d' then entry2 b b (pairBlocks b b orders.length (momentBlk b O orders)) r c d'
        else 0 := by
    intro d' hd'
    rw [sum_basisRep_of_id2 b hb _ (fun u => by rw [linPart_apply, hg])
      (fun r' c' => entry2 b b (pairBlocks b b orders.length (momentBlk b O orders)) r' c' d')
      r c hr hc,
      monoRep_id_nodup _ (fun u => by rw [linPart_apply, hg]) orders hfo.1 hd
        (Finset.mem_range.mp hd')]
    split_ifs <;> simp
  rw [Finset.sum_congr rfl e, Finset.sum_ite_eq, if_pos (Finset.mem_range.mpr hd)]

/-- **C12, translation invariance of the multipole-moment array of a whole basis**, the origin of
the moments translated along with the basis -/
theorem moment_array_translate (v : E3) (b : Basis ℝ) (hb : b.Movable) (O : ℕ → ℝ) {n : ℕ}
    (orders : List Comp) (hfo : FullCart n orders) (d : ℕ) (hd : d < orders.length)
    (r c : ℕ) (hr : r < b.total) (hc : c < b.total) :
    entry2 (b.moved (translation v)) (b.moved (translation v))
        (pairBlocks (b.moved (translation v)) (b.moved (translation v)) orders.length
          (momentBlk (b.moved (translation v)) (movedPt (translation v) O) orders)) r c d
      = entry2 b b (pairBlocks b b orders.length (momentBlk b O orders)) r c d :=
  moment_array_moved_of_linear_eq_id (translation v) (translation_linear v) b hb O orders hfo d hd
    r c hr hc

/-- **Angular-momentum array under a rigid motion with trivial linear part: the origin law**
`L' = L + (g 0) × P` at the level of the assembled arrays -/
theorem angmom_array_moved_of_linear_eq_id (g : E3 ≃ᵃⁱ[ℝ] E3)
    (hg : ∀ u, g.linearIsometryEquiv u = u) (b : Basis ℝ) (hb : b.Movable) (k : Fin 3)
    (r c : ℕ) (hr : r < b.total) (hc : c < b.total) :
    entry2 (b.moved g) (b.moved g)
        (pairBlocks (b.moved g) (b.moved g) 3 (angmomBlk (b.moved g))) r c k
      = entry2 b b (pairBlocks b b 3 (angmomBlk b)) r c k
        + (g 0 (k + 1) * entry2 b b (pairBlocks b b 3 (momentumBlk b)) r c (k + 2 : Fin 3)
          - g 0 (k + 2) * entry2 b b (pairBlocks b b 3 (momentumBlk b)) r c (k + 1 : Fin 3)) := by
  rw [angmom_array_moved g b hb k r c hr hc]
  have e1 : ∀ j : Fin 3, ∑ r' ∈ range b.total, ∑ c' ∈ range b.total,
      basisRep b (linPart g) r r' * basisRep b (linPart g) c c'
        * entry2 b b (pairBlocks b b 3 (angmomBlk b)) r' c' j
      = entry2 b b (pairBlocks b b 3 (angmomBlk b)) r c j := fun j =>
    sum_basisRep_of_id2 b hb _ (fun u => by rw [linPart_apply, hg])
      (fun r' c' => entry2 b b (pairBlocks b b 3 (angmomBlk b)) r' c' j) r c hr hc
  have e2 : ∀ j : Fin 3, ∑ r' ∈ range b.total, ∑ c' ∈ range b.total,
      basisRep b (linPart g) r r' * basisRep b (linPart g) c c'
        * entry2 b b (pairBlocks b b 3 (momentumBlk b)) r' c' j
      = entry2 b b (pairBlocks b b 3 (momentumBlk b)) r c j := fun j =>
    sum_basisRep_of_id2 b hb _ (fun u => by rw [linPart_apply, hg])
      (fun r' c' => entry2 b b (pairBlocks b b 3 (momentumBlk b)) r' c' j) r c hr hc
  simp only [e1, e2, matOf_linPart_of_linear_eq_id g hg, cof_of_linear_eq_id g hg, ite_mul,
    one_mul, zero_mul, Finset.sum_ite_eq, Finset.mem_univ, if_true]

/-- **C12, the angular-momentum array of a translated basis**: `L' = L + v × P` -/
theorem angmom_array_translate (v : E3) (b : Basis ℝ) (hb : b.Movable) (k : Fin 3)
    (r c : ℕ) (hr : r < b.total) (hc : c < b.total) :
    entry2 (b.moved (translation v)) (b.moved (translation v))
        (pairBlocks (b.moved (translation v)) (b.moved (translation v)) 3
          (angmomBlk (b.moved (translation v)))) r c k
      = entry2 b b (pairBlocks b b 3 (angmomBlk b)) r c k
        + (v (k + 1) * entry2 b b (pairBlocks b b 3 (momentumBlk b)) r c (k + 2 : Fin 3)
          - v (k + 2) * entry2 b b (pairBlocks b b 3 (momentumBlk b)) r c (k + 1 : Fin 3)) := by
  have h := angmom_array_moved_of_linear_eq_id (translation v) (translation_linear v) b hb k r c
    hr hc
  simp only [translation_apply, add_zero] at h
  exact h

end Tensor

/-! ## 4. `basisRep` preserves the block-diagonal metric of the basis -/
section Orthogonality

/-- the metric in which the representation matrix of a shell is orthogonal: the unit matrix for a
spherical shell (pure functions are orthonormal on the sphere), the overlap metric `Sov` of the
unit-normalised Cartesian monomials for a Cartesian shell (they are NOT orthogonal for `l ≥ 2`, e.g.
`xx` and `yy`; `repMat` is orthogonal only with respect to `Sov`) -/
noncomputable def shellMetric (s : Shell ℝ) (f f' : ℕ) : ℝ :=
  if s.sph then (if f = f' then 1 else 0)
  else Sov (s.cart.getD f (0,0,0)) (s.cart.getD f' (0,0,0))

/-- the block-diagonal metric of the basis: `shellMetric` inside a shell and segment, `0` between
different shells or segments -/
noncomputable def basisMetric (b : Basis ℝ) (r r' : ℕ) : ℝ :=
  if (b.locate r).1 = (b.locate r').1 ∧ (b.locate r).2.1 = (b.locate r').2.1 then
    shellMetric (shellOf b r) (funOf b r) (funOf b r')
  else 0

/-- **`W M Wᵀ = M` for one shell**: the representation matrix of a movable shell under a linear
isometry preserves `shellMetric` (plain orthogonality `W Wᵀ = 1` for a spherical shell,
`D S Dᵀ = S` for a Cartesian shell) -/
theorem shellRep_metric (R : E3 ≃ₗᵢ[ℝ] E3) (s : Shell ℝ) (hs : s.Movable) {f f' : ℕ}
    (hf : f < s.nfun) (hf' : f' < s.nfun) :
    ∑ x ∈ range s.nfun, ∑ y ∈ range s.nfun,
        shellRep R.toLinearEquiv.toLinearMap s f x * shellRep R.toLinearEquiv.toLinearMap s f' y
          * shellMetric s x y
      = shellMetric s f f' := by
  unfold shellRep shellMetric
  cases hsph : s.sph with
  | true =>
    obtain ⟨hl, hv⟩ := hs.sph_ok hsph
    have hn : s.nfun = s.sphOrd.length := by simp [Shell.nfun, hsph]
    rw [hn] at hf hf' ⊢
    simp only [if_true]
    have e : ∀ x ∈ range s.sphOrd.length, ∑ y ∈ range s.sphOrd.length,
        sphRep R.toLinearEquiv.toLinearMap s.l s.sphOrd f x
          * sphRep R.toLinearEquiv.toLinearMap s.l s.sphOrd f' y * (if x = y then (1:ℝ) else 0)
        = sphRep R.toLinearEquiv.toLinearMap s.l s.sphOrd f x
          * sphRep R.toLinearEquiv.toLinearMap s.l s.sphOrd f' x := by
      intro x hx
      rw [Finset.sum_eq_single x]
      · simp
      · intro y _ hy
        rw [if_neg (Ne.symm hy), mul_zero]
      · intro h; exact absurd hx h
    rw [Finset.sum_congr rfl e]
    exact sphRep_orthogonal s.l hl hv R hf hf'
  | false =>
    have hn : s.nfun = s.cart.length := by simp [Shell.nfun, hsph]
    rw [hn] at hf hf' ⊢
    simp only [Bool.false_eq_true, if_false]
    exact repMat_Sov R hs.full_cart hf hf'

/-- **`U G Uᵀ = G` for the basis**: for a movable basis and a linear isometry `R` (proper or improper),
`Σ_{s, s'} U(r,s) U(r',s') G(s,s') = G(r,r')` with `U = basisRep b R` and `G = basisMetric b`. -/
theorem basisRep_metric (R : E3 ≃ₗᵢ[ℝ] E3) (b : Basis ℝ) (hb : b.Movable) (r r' : ℕ)
    (hr : r < b.total) (hr' : r' < b.total) :
    ∑ s ∈ range b.total, ∑ s' ∈ range b.total,
        basisRep b R.toLinearEquiv.toLinearMap r s * basisRep b R.toLinearEquiv.toLinearMap r' s'
          * basisMetric b s s'
      = basisMetric b r r' := by
  obtain ⟨hi, hm, hf, -⟩ := locate_lt' b r hr
  obtain ⟨hi', hm', hf', -⟩ := locate_lt' b r' hr'
  have h1 : ∑ s ∈ range b.total, ∑ s' ∈ range b.total,
        basisRep b R.toLinearEquiv.toLinearMap r s * basisRep b R.toLinearEquiv.toLinearMap r' s'
          * basisMetric b s s'
      = ∑ s ∈ range b.total, basisRep b R.toLinearEquiv.toLinearMap r s
          * ∑ s' ∈ range b.total, basisRep b R.toLinearEquiv.toLinearMap r' s'
            * basisMetric b s s' := by
    refine Finset.sum_congr rfl fun s _ => ?_
    rw [Finset.mul_sum]; exact Finset.sum_congr rfl fun s' _ => by ring
  rw [h1, sum_basisRep b _ r hr]
  simp_rw [sum_basisRep b _ r' hr']
  have hG : ∀ x ∈ range (shellOf b r).nfun, ∀ y ∈ range (shellOf b r').nfun,
      basisMetric b (b.offset (b.locate r).1 + segOf b r * (shellOf b r).nfun + x)
          (b.offset (b.locate r').1 + segOf b r' * (shellOf b r').nfun + y)
        = if (b.locate r).1 = (b.locate r').1 ∧ segOf b r = segOf b r' then
            shellMetric (shellOf b r) x y else 0 := by
    intro x hx y hy
    have l1 : b.locate (b.offset (b.locate r).1 + segOf b r * (shellOf b r).nfun + x)
        = ((b.locate r).1, segOf b r, x) :=
      locate_offset'' b _ hi _ x hm (Finset.mem_range.mp hx)
    have l2 : b.locate (b.offset (b.locate r').1 + segOf b r' * (shellOf b r').nfun + y)
        = ((b.locate r').1, segOf b r', y) :=
      locate_offset'' b _ hi' _ y hm' (Finset.mem_range.mp hy)
    have e : ∀ p q : ℕ, basisMetric b p q
        = if (b.locate p).1 = (b.locate q).1 ∧ (b.locate p).2.1 = (b.locate q).2.1 then
            shellMetric (b[(b.locate p).1]!) (b.locate p).2.2 (b.locate q).2.2 else 0 :=
      fun _ _ => rfl
    rw [e, l1, l2]
    rfl
  have hsum : ∀ x ∈ range (shellOf b r).nfun,
      shellRep R.toLinearEquiv.toLinearMap (shellOf b r) (funOf b r) x
          * ∑ y ∈ range (shellOf b r').nfun,
              shellRep R.toLinearEquiv.toLinearMap (shellOf b r') (funOf b r') y
                * basisMetric b (b.offset (b.locate r).1 + segOf b r * (shellOf b r).nfun + x)
                    (b.offset (b.locate r').1 + segOf b r' * (shellOf b r').nfun + y)
        = ∑ y ∈ range (shellOf b r').nfun,
            shellRep R.toLinearEquiv.toLinearMap (shellOf b r) (funOf b r) x
              * shellRep R.toLinearEquiv.toLinearMap (shellOf b r') (funOf b r') y
              * (if (b.locate r).1 = (b.locate r').1 ∧ segOf b r = segOf b r' then
                  shellMetric (shellOf b r) x y else 0) := by
    intro x hx
    rw [Finset.mul_sum]
    refine Finset.sum_congr rfl fun y hy => ?_
    rw [hG x hx y hy]; ring
  rw [Finset.sum_congr rfl hsum]
  have hGr : basisMetric b r r'
      = if (b.locate r).1 = (b.locate r').1 ∧ segOf b r = segOf b r' then
          shellMetric (shellOf b r) (funOf b r) (funOf b r') else 0 := rfl
  rw [hGr]
  by_cases hsame : (b.locate r).1 = (b.locate r').1 ∧ segOf b r = segOf b r'
  · simp only [if_pos hsame]
    have hsh : shellOf b r' = shellOf b r := by unfold shellOf; rw [hsame.1]
    rw [hsh] at hf' ⊢
    exact shellRep_metric R (shellOf b r) (shellOf_movable b hb r hr) hf hf'
  · simp only [if_neg hsame, mul_zero, Finset.sum_const_zero]

/-- inside a spherical shell the metric is the unit matrix -/
theorem basisMetric_of_sph (b : Basis ℝ) (r r' : ℕ) (hr : r < b.total) (hr' : r' < b.total)
    (hsph : (shellOf b r).sph = true) :
    basisMetric b r r' = if r = r' then 1 else 0 := by
  obtain ⟨hi, hm, hf, hrr⟩ := locate_lt' b r hr
  obtain ⟨hi', hm', hf', hrr'⟩ := locate_lt' b r' hr'
  unfold basisMetric shellMetric
  rw [hsph]
  simp only [if_true]
  by_cases h : r = r'
  · subst h
    rw [if_pos ⟨rfl, rfl⟩, if_pos rfl, if_pos rfl]
  · rw [if_neg h]
    by_cases h2 : (b.locate r).1 = (b.locate r').1 ∧ (b.locate r).2.1 = (b.locate r').2.1
    · rw [if_pos h2, if_neg]
      intro e
      apply h
      have hsh : shellOf b r' = shellOf b r := by unfold shellOf; rw [h2.1]
      have hsg : segOf b r' = segOf b r := by unfold segOf; rw [h2.2]
      rw [← hrr, ← hrr', hsh, hsg, e, h2.1]
    · rw [if_neg h2]

/-- **plain orthogonality `U Uᵀ = 1` for a basis of spherical shells** -/
theorem basisRep_orthogonal_of_sph (R : E3 ≃ₗᵢ[ℝ] E3) (b : Basis ℝ) (hb : b.Movable)
    (hsph : ∀ (i : ℕ) (hi : i < b.size), b[i].sph = true) (r r' : ℕ)
    (hr : r < b.total) (hr' : r' < b.total) :
    ∑ s ∈ range b.total,
        basisRep b R.toLinearEquiv.toLinearMap r s * basisRep b R.toLinearEquiv.toLinearMap r' s
      = if r = r' then 1 else 0 := by
  have hs : ∀ s < b.total, (shellOf b s).sph = true := by
    intro s hs
    obtain ⟨hi, -⟩ := locate_lt b s hs
    rw [shellOf_eq b s hi]; exact hsph _ hi
  rw [← basisMetric_of_sph b r r' hr hr' (hs r hr), ← basisRep_metric R b hb r r' hr hr']
  refine Finset.sum_congr rfl fun s hs' => ?_
  rw [Finset.sum_eq_single s]
  · rw [basisMetric_of_sph b s s (Finset.mem_range.mp hs') (Finset.mem_range.mp hs')
      (hs s (Finset.mem_range.mp hs')), if_pos rfl, mul_one]
  · intro y hy hne
    rw [basisMetric_of_sph b s y (Finset.mem_range.mp hs') (Finset.mem_range.mp hy)
      (hs s (Finset.mem_range.mp hs')), if_neg (Ne.symm hne), mul_zero]
  · intro h; exact absurd hs' h

end Orthogonality

end GB
