import GBExtracted.Tables
import GBExtracted.Forms
import GBExtracted.Pipelines
import GBExtracted.Effects
import GBExtracted.Dispatch
import GBExtracted.Formulas
import GBExtracted.Signatures
