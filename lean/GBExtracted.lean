import GBExtracted.Tables
import GBExtracted.Forms
