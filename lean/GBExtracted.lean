import GBExtracted.Tables
